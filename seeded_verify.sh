#!/bin/sh
# usage: ./seeded_verify.sh <dir containing patch.diff and demo.py>
# Confirms, in a scratch copy of /repo outside /repo and /verif: the patch applies, the 30 baseline tests still pass with
# it, the demonstration exits non-zero with it and 0 without it.
S="$1"
D=$(mktemp -d /tmp/vt_sv_XXXXXX)
cp -r /repo/topsim /repo/test /repo/setup.py "$D/" 2>/dev/null
mkdir -p "$D/_seeded"; cp "$S/demo.py" "$D/_seeded/"
cd "$D"
PYTHONPATH="$D" TQDM_DISABLE=1 /venv/bin/python _seeded/demo.py > "$D/demo_clean.log" 2>&1; CLEAN=$?
patch -p1 -s < "$S/patch.diff" || { echo "PATCH FAILED"; rm -rf "$D"; exit 2; }
PASSED=$(PYTHONPATH="$D" /venv/bin/python -m pytest -q -p no:cacheprovider --timeout=900 --continue-on-collection-errors -rA 2>/dev/null | grep -c '^PASSED')
PYTHONPATH="$D" TQDM_DISABLE=1 /venv/bin/python _seeded/demo.py > "$D/demo_mut.log" 2>&1; MUT=$?
echo "tests_passed_with_change=$PASSED demo_exit_clean=$CLEAN demo_exit_with_change=$MUT"
tail -2 "$D/demo_mut.log"
cd /; rm -rf "$D"
