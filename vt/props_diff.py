"""Differential properties: C10 (reproducibility across runs and interpreter hash seeds) and
C11 (pause / resume transparency)."""
import json
import os
import shutil
import subprocess
import sys
import tempfile

from hypothesis import strategies as st

from . import oracles as O
from .engine import HarnessError, case_hash, run_given, shard_seed
from .props_sim import SimSpec, brief, mix
from .scenario import scenarios

SPECS = {}
VERIF = os.path.dirname(os.path.dirname(os.path.abspath(__file__)))


def register(cls):
    SPECS[cls.prop] = cls()
    return cls


# ========================================================================================= C10

class Children:
    def __init__(self, hashseeds):
        self.tmp = tempfile.mkdtemp(prefix='vt_c10_')
        self.procs = []
        for k, hs in enumerate(hashseeds):
            env = dict(os.environ)
            env['PYTHONHASHSEED'] = str(hs)
            env['VT_NO_REEXEC'] = '1'
            wd = os.path.join(self.tmp, f"child{k}", 'run')      # same relative layout in every child
            os.makedirs(wd, exist_ok=True)
            p = subprocess.Popen([sys.executable, '-m', 'vt.child', 'run'], stdin=subprocess.PIPE,
                                 stdout=subprocess.PIPE, stderr=subprocess.DEVNULL, env=env,
                                 cwd=os.path.join(self.tmp, f"child{k}"), text=True, bufsize=1)
            self.procs.append((hs, p))

    @staticmethod
    def decoy(sc, k):
        """a related but different simulation (other machine speeds, other delay seed / probability) run in child k
        before the real one, so that the interpreters have different histories; results must not depend on it"""
        d = json.loads(json.dumps(sc))
        for m in d['machines']:
            m['flops'] += k
            m['bw'] += k
        if d.get('delay_model'):
            d['delay_model']['seed'] += k
            d['delay_model']['prob'] = 1.0
            if d['delay_model']['degree'] == 'NONE':
                d['delay_model']['degree'] = 'HIGH'
        return d

    def run(self, sc):
        for k, (_, p) in enumerate(self.procs):
            msg = {'sc': sc, 'decoys': [self.decoy(sc, k)] if k else []}
            if k == 0:
                # the first child also runs it once with a wall clock that jumps 3 s between any two readings
                msg['slow_clock'] = True
            if k == 1 % len(self.procs):
                # ... and the second once with the topsim loggers at INFO level
                msg['verbose_log'] = True
            if k == max(0, len(self.procs) - 2):
                # one child also runs the scenario twice more with ONE DelayModel object shared by both simulations
                msg['shared_dm'] = True
            if k == len(self.procs) - 1:
                # the last child also runs the scenario a third time with another simulation built and run between the
                # construction of its Simulation and its start()
                msg['interleave'] = self.decoy(sc, k + 1)
            p.stdin.write(json.dumps(msg) + '\n')
            p.stdin.flush()
        out = []
        for hs, p in self.procs:
            resp = p.stdout.readline()
            if not resp:
                raise HarnessError(f"child with PYTHONHASHSEED={hs} died")
            out.append((hs, json.loads(resp)))
        return out

    def close(self):
        for _, p in self.procs:
            try:
                p.stdin.close()
                p.wait(timeout=10)
            except Exception:
                p.kill()
        shutil.rmtree(self.tmp, ignore_errors=True)


class C10:
    prop = 'C10'
    cases = {'quick': 240, 'thorough': 900}
    hashseeds = {'quick': [0, 1, 2], 'thorough': [0, 1, 2, 3, 4, 5, 6, 7]}
    technique = ("differential property-based testing: the same generated scenario in K interpreters with different PYTHONHASHSEED, twice in each, "
                 "plus runs interleaved with another simulation, with a DelayModel object shared by two simulations, and under a wall clock that jumps")
    rule = ("scenarios (all shipped pairings, wide DAG fronts with several ready tasks and few machines, shipped DelayModel with generated "
            "prob/degree/seed/distribution) are run twice in each of K child interpreters started with PYTHONHASHSEED 0..K-1 (quick K=3, "
            "thorough K=8); child k>0 runs a related decoy simulation first (other machine speeds / delay seed), so interpreters differ in "
            "history too, one child runs it once more with the topsim loggers at INFO level, one child runs it once more under a wall clock that jumps 3 s between any two readings, one child runs it twice more with one DelayModel object shared by both simulations, and the last child runs the scenario a third time with another simulation built and run between the construction of its Simulation and its start(); non-trivial = some algorithm.run call saw >= 2 ready tasks (reported by the child); distinct = distinct "
            "canonical scenario JSON")
    level_text = ("exploration: digests of the per-timestep table (minus *-algtime columns), the task table and the event log must be "
                  "equal between the in-process runs (plain, repeated, interleaved with another simulation) and between all K interpreters")
    assumptions = ["children run through the same pass-through tracing harness as every other check (step budget, ready-task counts)",
                   "child k>0 first runs a related decoy simulation (other machine speeds, other delay seed) so that interpreters differ in history as well as in hash seed",
                   "each child runs in its own directory with the same relative config path, so the 'config' column is comparable"]
    _children = None

    def strategy(self, tier):
        kw = dict(max_machines=4, max_obs=3, max_nodes=8) if tier == 'quick' else dict(max_machines=6, max_obs=4, max_nodes=12)
        base = mix((3, scenarios(delay_model=True, few_machines=True, **kw)), (2, scenarios(delay_model=True, **kw)),
                   # plan-following schedulers with many tasks piled on one machine: planned machines are busy, fall-backs and
                   # waits happen, several workflows compete
                   (2, scenarios(algs=('greedy',), piled_plans=True, delay_model=True, min_obs=2, **dict(kw, max_machines=6))),
                   (1, scenarios(algs=('dynamic',), piled_plans=True, delay_model=True, min_obs=2, **kw)),
                   # reservations made, released and made again: several observations one after the other under batch scheduling
                   (2, scenarios(algs=('batch',), delay_model=True, min_obs=3, start_gaps=(1, 2, 3, 5), **dict(kw, max_machines=6, max_obs=4))))

        def widen(pair):
            sc, dist = pair
            if sc.get('delay_model'):
                sc = dict(sc)
                sc['delay_model'] = dict(sc['delay_model'], dist=dist)
            return sc
        return st.tuples(base, st.sampled_from(['normal', 'normal', 'poisson', 'uniform'])).map(widen)

    def children(self, tier):
        if self._children is None:
            self._children = Children(self.hashseeds[tier])
        return self._children

    def body_with(self, children):
        def body(sc, state):
            state.evaluations += 1
            res = children.run(sc)
            out = []
            for hs, r in res:
                if 'harness_error' in r:
                    raise HarnessError(r['harness_error'])
                if r['first'] != r['second']:
                    out.append(O.V('C10', 'not_repeatable_in_process', f"PYTHONHASHSEED={hs}: two runs in one interpreter differ: "
                                   f"{diff_keys(r['first'], r['second'])}"))
                if 'third' in r and r['third'] != r['first']:
                    out.append(O.V('C10', 'depends_on_other_simulation', f"PYTHONHASHSEED={hs}: a run whose Simulation was built before another "
                                   f"simulation was built and run in the same interpreter differs from the plain run: {diff_keys(r['first'], r['third'])}"))
                if 'sixth' in r and r['sixth'] != r['first']:
                    out.append(O.V('C10', 'depends_on_logging_level', f"PYTHONHASHSEED={hs}: with the topsim loggers at INFO level the outputs differ: "
                                   f"{diff_keys(r['first'], r['sixth'])}"))
                if 'fifth' in r and r['fifth'] != r['first']:
                    out.append(O.V('C10', 'depends_on_wall_clock', f"PYTHONHASHSEED={hs}: with a wall clock that advances 3 s between any two readings the outputs "
                                   f"(timing columns excluded) differ: {diff_keys(r['first'], r['fifth'])}"))
                if 'fourth' in r and r['fourth'] != r['first']:
                    out.append(O.V('C10', 'depends_on_reused_delay_model', f"PYTHONHASHSEED={hs}: the second of two simulations that were handed the same DelayModel "
                                   f"object differs from a run with its own delay model of the same seed: {diff_keys(r['first'], r['fourth'])}"))
            ref_hs, ref = res[0]
            for hs, r in res[1:]:
                if r['first'] != ref['first']:
                    out.append(O.V('C10', 'differs_across_interpreters', f"interpreter with PYTHONHASHSEED={hs} (and a decoy run before) vs PYTHONHASHSEED={ref_hs}: outputs differ in "
                                   f"{diff_keys(r['first'], ref['first'])} (alg {sc['alg']['kind']})"))
            st0 = ref['first']['status']
            state.count(f"status={st0}")
            state.count(f"alg={sc['alg']['kind']}")
            if sc.get('delay_model'):
                state.count(f"delay_model={sc['delay_model']['dist']}")
            if st0 != 'completed':
                state.aborted += 1
            if ref['first'].get('ready_ge2'):
                state.nontrivial.add(case_hash(sc))
                state.sample({'scenario': brief(sc), 'digests': {k: ref['first'].get(k) for k in ('df', 'tasks', 'events', 'end')},
                              'rounds_with_ge2_ready_tasks': ref['first']['ready_ge2']})
            for v in out:
                v['sig'] = v['part']
            return state.split_known(out)
        return body

    _replay_children = None

    def replay_case(self, sc, state):
        # one set of child interpreters for the whole replaying process, so that a `kind: sequence` replay file
        # rebuilds the same interpreter histories as the shard that found the failure
        if C10._replay_children is None:
            import atexit
            C10._replay_children = Children(self.hashseeds['quick'])
            atexit.register(C10._replay_children.close)
        return self.body_with(C10._replay_children)(sc, state)

    def run_shard(self, state, tier, seed, shard, nshards, cases=None):
        k = len(self.hashseeds[tier])
        active = max(2, 16 // (k + 1))          # shards that actually run children
        if shard >= active:
            return
        ch = Children(self.hashseeds[tier])
        try:
            total = cases or self.cases[tier]
            run_given(state, self.strategy(tier), self.body_with(ch), max(1, total // active),
                      shard_seed(seed, self.prop, shard))
        finally:
            ch.close()
        state.extra['max_interpreters_per_case'] = k


def diff_keys(a, b):
    return [k for k in sorted(set(a) | set(b)) if a.get(k) != b.get(k)]


register(C10)


# ========================================================================================= C11

def table_rows(df):
    if df is None:
        return None
    cols = [c for c in df.columns if not str(c).endswith('-algtime') and c != 'config']
    d = df[cols]
    return {'cols': [str(c) for c in cols], 'index': [str(i) for i in d.index],
            'rows': json.loads(json.dumps(d.astype(object).where(d.notna(), None).values.tolist(), default=str))}


def first_diff(a, b, what):
    if a == b:
        return None
    if a is None or b is None:
        return f"{what}: one side missing"
    if a['cols'] != b['cols']:
        return f"{what}: columns differ {sorted(set(a['cols']) ^ set(b['cols']))}"
    if len(a['rows']) != len(b['rows']):
        return f"{what}: {len(a['rows'])} rows vs {len(b['rows'])} rows"
    for i, (x, y) in enumerate(zip(a['rows'], b['rows'])):
        if x != y:
            cols = [a['cols'][j] for j in range(len(x)) if x[j] != y[j]]
            return f"{what}: row {i} ({a['index'][i]}) differs in {cols[:4]}: {[x[a['cols'].index(c)] for c in cols[:4]]} vs {[y[a['cols'].index(c)] for c in cols[:4]]}"
    if a['index'] != b['index']:
        return f"{what}: row labels differ"
    return f"{what}: differ"


def run_controlled(sc, mode, points=None, runtime=None, misuse=False):
    """mode 'full' -> start(); 'runtime' -> start(runtime); 'paused' -> start(points[0]) + resume(points[1:])
    with misuse=True also tries resume-before-start and start-twice and records whether they were
    refused and changed nothing"""
    import shutil
    from . import trace as T
    from .runner import build, quiet
    from .scenario import step_budget
    d = tempfile.mkdtemp(prefix='vt11_')
    notes = []
    cwd = os.getcwd()
    try:
        os.chdir(d)
        with quiet():
            sim, env = build(sc, '.', budget=step_budget(sc) + 10)
        tr = T.Trace(sc, sim, env)
        T.wrap_algorithm(tr, sim.scheduler.algorithm)
        tr.snaps[0] = tr.snapshot()
        tr.track_task_state = True
        T.CURRENT = tr

        def state():
            return (env.now, env.seq, len(sim.monitor.df), len(sim.monitor.events), len(tr.allocs), sim.running)

        def at_pause(how):
            # "the same state trajectory": when start(runtime=k) / resume(until=k) returns, nothing due at k has happened yet, so
            # what the caller can read off the task objects is what held before the first event of step k
            b = getattr(tr, 'boundary_task_state', None)
            if b is not None and b[0] == env.now:
                now = tr.task_state()
                if now != b[1]:
                    diff = [(x, y) for x, y in zip(b[1], now) if x != y][:2]
                    notes.append(O.V('C11', 'state_at_pause_differs', f"{how} returned at {env.now} with task state ahead of the trajectory: {diff}"))
        try:
            with quiet():
                if misuse:
                    s0 = state()
                    try:
                        sim.resume(until=3)
                        notes.append(O.V('C11', 'resume_before_start_accepted', "resume() before start() did not raise"))
                    except RuntimeError:
                        pass
                    if state() != s0:
                        notes.append(O.V('C11', 'resume_before_start_changed_state', f"refused resume() changed state {s0} -> {state()}"))
                if mode == 'full':
                    sim.start()
                elif mode == 'runtime':
                    sim.start(runtime=runtime)
                else:
                    sim.start(runtime=points[0])
                    at_pause(f"start(runtime={points[0]})")
                    for i, until in enumerate(points[1:]):
                        if misuse and i == 0:
                            s1 = state()
                            try:
                                sim.start()
                                notes.append(O.V('C11', 'second_start_accepted', "start() on a started simulation did not raise"))
                            except RuntimeError:
                                pass
                            if state() != s1:
                                notes.append(O.V('C11', 'second_start_changed_state', f"refused second start() changed state {s1} -> {state()}"))
                        sim.resume(until=until)
                        at_pause(f"resume(until={until})")
                if misuse and mode != 'paused':
                    s1 = state()
                    try:
                        sim.start()
                        notes.append(O.V('C11', 'second_start_accepted', "start() on a finished simulation did not raise"))
                    except RuntimeError:
                        pass
                    if state() != s1:
                        notes.append(O.V('C11', 'second_start_changed_state', f"refused second start() changed state {s1} -> {state()}"))
            tr.status = 'completed'
        except T.StepBudgetExceeded:
            tr.status = 'budget'
        except Exception as e:
            if T.harness_frame_innermost(e):
                raise
            tr.status = 'raised'
            tr.exc_sig = f"{type(e).__name__}@{T.repo_frame(e)}"
        finally:
            T.CURRENT = None
        tr.final_now = env.now
        res = {'status': tr.status, 'sig': getattr(tr, 'exc_sig', None), 'end': env.now,
               'df': table_rows(sim.monitor.df), 'events': table_rows(sim.monitor.events),
               'tasks': table_rows(sim._generate_final_task_data()) if tr.status == 'completed' else None,
               'snaps': {str(k): v for k, v in sorted(tr.snaps.items())},
               'busy_at': {}, 'tr': tr}
        return res, notes
    finally:
        os.chdir(cwd)
        shutil.rmtree(d, ignore_errors=True)


def compare_runs(ref, cand, label):
    out = []
    if ref['status'] != cand['status'] or ref['sig'] != cand['sig']:
        return [O.V('C11', 'status_differs', f"{label}: reference {ref['status']} {ref['sig']} vs paused {cand['status']} {cand['sig']}")]
    if ref['end'] != cand['end']:
        out.append(O.V('C11', 'clock_differs', f"{label}: end clock {ref['end']} vs {cand['end']}"))
    for k, part in (('df', 'table_differs'), ('events', 'event_log_differs'), ('tasks', 'task_table_differs')):
        d = first_diff(ref[k], cand[k], k)
        if d:
            out.append(O.V('C11', part, f"{label}: {d}"))
    if ref['snaps'] != cand['snaps']:
        ks = [k for k in sorted(set(ref['snaps']) | set(cand['snaps']), key=int) if ref['snaps'].get(k) != cand['snaps'].get(k)]
        out.append(O.V('C11', 'trajectory_differs', f"{label}: shadow state differs at steps {ks[:5]}"))
    return out


class C11:
    prop = 'C11'
    cases = {'quick': 180, 'thorough': 2400}
    technique = "differential property-based testing: start(k)+resume(...) versus one uninterrupted run of the same generated scenario"
    rule = ("scenario x pause point k x split of the remainder into resume segments x tail (0..3 steps past completion); the reference is "
            "an uninterrupted start() (tail 0) or start(runtime=T+tail); each case also attempts resume() before start() and a second "
            "start(); half of the sampled pause points are aligned with transitions of the reference run; every pause point k in 1..T-1 is "
            "enumerated for 2 small scenarios per shard (quick, T <= 26) or 6 (thorough, T <= 40); non-trivial = the pause "
            "point lies strictly inside an ingest or a workflow (an allocation is active in the shadow model at step k); distinct = "
            "distinct canonical (scenario, pause points, tail) JSON")
    level_text = ("exploration: per-timestep table (minus *-algtime), task table, event log, end clock and the shadow model's per-step "
                  "snapshots must be identical between the paused/resumed run and the uninterrupted reference; when start(runtime=k) / resume(until=k) returns, the task objects must show the state that held before the first event of step k; misuse must raise "
                  "RuntimeError and leave clock, tables and processed-event count unchanged")
    assumptions = SimSpec.assumptions

    def strategy(self, tier):
        kw = dict(max_machines=5, max_obs=3, max_nodes=6) if tier == 'quick' else dict(max_machines=8, max_obs=4, max_nodes=10)
        from .props_sim import crowd, tight
        base = mix((3, scenarios(delays=True, **kw)), (2, crowd(kw, max_duration=4)), (1, tight(kw)),
                   (1, scenarios(min_obs=2, b2b=True, few_machines=True, **kw)))
        return st.tuples(base, st.lists(st.floats(0.02, 0.98), min_size=1, max_size=3), st.sampled_from([0, 0, 0, 1, 3])).map(
            lambda t: {'sc': t[0], 'frac': t[1], 'tail': t[2]})

    def body(self, case, state):
        sc = case['sc']
        state.evaluations += 1
        full, n0 = run_controlled(sc, 'full', misuse=True)
        out = list(n0)
        state.count(f"alg={sc['alg']['kind']}")
        if full['status'] != 'completed':
            state.aborted += 1
            state.count(f"reference_{full['status']}")
            for v in out:
                v['sig'] = v['part']
            return state.split_known(out)
        T_ = int(full['end'])
        tail = case.get('tail', 0)
        if 'points' in case:
            pts = [p for p in case['points'] if 0 < p < T_ + tail]
        else:
            # half of the pause points are drawn from the steps at (or right after) which something happened in the
            # reference run - observation begun / finished, data stored, workflow queued / started / finished
            trr = full['tr']
            cand = set()
            for r_ in trr.obs.values():
                for k_ in ('begin', 'finish', 'queued_at', 'alloc_started_at', 'dequeued_at', 'freed_at'):
                    if r_[k_] is not None:
                        cand.update({int(r_[k_]), int(r_[k_]) + 1, int(r_[k_]) + 2})
            cand = sorted(c for c in cand if 0 < c < T_ + tail)
            pts = set()
            for i_, f in enumerate(case['frac']):
                if i_ % 2 == 0 and cand:
                    pts.add(cand[min(len(cand) - 1, int(f * len(cand)))])
                elif T_ + tail > 1:
                    pts.add(max(1, min(T_ + tail - 1, int(f * (T_ + tail)))))
            pts = sorted(pts)
        if not pts:
            state.count('too_short_to_pause')
            return []
        cand, n1 = run_controlled(sc, 'paused', points=pts + [T_ + tail], misuse=True)
        out += n1
        if tail == 0:
            out += compare_runs(full, cand, f"pause at {pts}, uninterrupted start()")
        else:
            ref, _ = run_controlled(sc, 'runtime', runtime=T_ + tail)
            out += compare_runs(ref, cand, f"pause at {pts}, start(runtime={T_ + tail})")
        # also: start(runtime=T) must equal start()
        if tail == 0 and case.get('check_runtime', True) and len(pts) == 1:
            ref2, _ = run_controlled(sc, 'runtime', runtime=T_)
            for v in compare_runs(full, ref2, f"start(runtime={T_}) vs start()"):
                v['part'] = 'runtime_' + v['part']
                out.append(v)
        state.count(f"segments={len(pts) + 1}")
        state.count(f"tail={tail}")
        snaps = full['snaps']
        inside = any(snaps.get(str(p), {}).get('running_tasks', 0) > 0 for p in pts)
        if inside:
            state.count('pause_inside_activity')
            state.nontrivial.add(case_hash({'sc': sc, 'pts': pts, 'tail': tail}))
            state.sample({'scenario': brief(sc), 'completion': T_, 'pause_points': pts, 'tail': tail,
                          'rows': len(full['df']['rows']), 'log_entries': len(full['events']['rows'])})
        for v in out:
            v['sig'] = v['part']
        return state.split_known(out)

    def replay_case(self, case, state):
        return self.body(case, state)

    def run_shard(self, state, tier, seed, shard, nshards, cases=None):
        total = cases or self.cases[tier]
        run_given(state, self.strategy(tier), self.body, max(1, total // nshards), shard_seed(seed, self.prop, shard))
        if state.failures:
            return
        # every pause point of a few generated scenarios (quick: 2 small ones per shard from the families in which
        # several observations begin / end together; thorough: 6 per shard from the whole mix)
        from .engine import ShardState
        from .props_sim import crowd, tight
        collected = []
        tmp = ShardState(self.prop, tier, known=[])

        def collect(case, st_):
            collected.append(case if 'machines' in case else case['sc'])
            return []
        if tier == 'thorough':
            run_given(tmp, self.strategy(tier), collect, 6, shard_seed(seed, self.prop, shard, 'enum'), shrink=False)
        else:
            kw = dict(max_machines=4, max_obs=3, max_nodes=3)
            chained = scenarios(min_obs=2, b2b=True, modes=('roomy',), max_duration=4, few_machines=True, **kw)
            run_given(tmp, mix((2, crowd(kw, max_duration=3)), (1, tight(kw)), (2, chained)), collect, 3,
                      shard_seed(seed, self.prop, shard, 'enum'), shrink=False)
        n = 0
        for sc in collected:
            full, _ = run_controlled(sc, 'full')
            if full['status'] != 'completed' or full['end'] > (40 if tier == 'thorough' else 26):
                continue
            for k in range(1, int(full['end'])):
                n += 1
                case = {'sc': sc, 'points': [k], 'tail': 0, 'check_runtime': False}
                bad = self.body(case, state)
                if bad:
                    state.failures.append((case, bad))
                    return
        state.extra['all_pause_points_cases'] = n


register(C11)
