"""Differential properties: C10 (reproducibility across runs and interpreter hash seeds) and
C11 (pause / resume transparency)."""
import json
import os
import shutil
import subprocess
import sys
import tempfile

from hypothesis import strategies as st

from . import oracles as O
from .engine import HarnessError, case_hash, run_given, shard_seed
from .props_sim import SimSpec, brief, mix
from .scenario import scenarios

SPECS = {}
VERIF = os.path.dirname(os.path.dirname(os.path.abspath(__file__)))


def register(cls):
    SPECS[cls.prop] = cls()
    return cls


# ========================================================================================= C10

class Children:
    def __init__(self, hashseeds):
        self.tmp = tempfile.mkdtemp(prefix='vt_c10_')
        self.procs = []
        for k, hs in enumerate(hashseeds):
            env = dict(os.environ)
            env['PYTHONHASHSEED'] = str(hs)
            env['VT_NO_REEXEC'] = '1'
            wd = os.path.join(self.tmp, f"child{k}", 'run')      # same relative layout in every child
            os.makedirs(wd, exist_ok=True)
            p = subprocess.Popen([sys.executable, '-m', 'vt.child', 'run'], stdin=subprocess.PIPE,
                                 stdout=subprocess.PIPE, stderr=subprocess.DEVNULL, env=env,
                                 cwd=os.path.join(self.tmp, f"child{k}"), text=True, bufsize=1)
            self.procs.append((hs, p))

    def run(self, sc):
        line = json.dumps(sc) + '\n'
        for _, p in self.procs:
            p.stdin.write(line)
            p.stdin.flush()
        out = []
        for hs, p in self.procs:
            resp = p.stdout.readline()
            if not resp:
                raise HarnessError(f"child with PYTHONHASHSEED={hs} died")
            out.append((hs, json.loads(resp)))
        return out

    def close(self):
        for _, p in self.procs:
            try:
                p.stdin.close()
                p.wait(timeout=10)
            except Exception:
                p.kill()
        shutil.rmtree(self.tmp, ignore_errors=True)


class C10:
    prop = 'C10'
    cases = {'quick': 150, 'thorough': 1600}
    hashseeds = {'quick': [0, 1, 2], 'thorough': [0, 1, 2, 3, 4, 5, 6, 7]}
    technique = "differential property-based testing: the same generated scenario in K interpreters with different PYTHONHASHSEED, twice in each"
    rule = ("scenarios (all shipped pairings, wide DAG fronts with several ready tasks and few machines, shipped DelayModel with generated "
            "prob/degree/seed/distribution) are run twice in each of K child interpreters started with PYTHONHASHSEED 0..K-1 (quick K=3, "
            "thorough K=8); non-trivial = some algorithm.run call saw >= 2 ready tasks (reported by the child); distinct = distinct "
            "canonical scenario JSON")
    level_text = ("exploration: digests of the per-timestep table (minus *-algtime columns), the task table and the event log must be "
                  "equal between the two in-process runs and between all K interpreters")
    assumptions = ["children run through the same pass-through tracing harness as every other check (step budget, ready-task counts)",
                   "each child runs in its own directory with the same relative config path, so the 'config' column is comparable"]
    _children = None

    def strategy(self, tier):
        kw = dict(max_machines=4, max_obs=3, max_nodes=8) if tier == 'quick' else dict(max_machines=6, max_obs=4, max_nodes=12)
        base = mix((3, scenarios(delay_model=True, few_machines=True, **kw)), (2, scenarios(delay_model=True, **kw)))

        def widen(pair):
            sc, dist = pair
            if sc.get('delay_model'):
                sc = dict(sc)
                sc['delay_model'] = dict(sc['delay_model'], dist=dist)
            return sc
        return st.tuples(base, st.sampled_from(['normal', 'normal', 'poisson', 'uniform'])).map(widen)

    def children(self, tier):
        if self._children is None:
            self._children = Children(self.hashseeds[tier])
        return self._children

    def body_with(self, children):
        def body(sc, state):
            state.evaluations += 1
            res = children.run(sc)
            out = []
            for hs, r in res:
                if 'harness_error' in r:
                    raise HarnessError(r['harness_error'])
                if r['first'] != r['second']:
                    out.append(O.V('C10', 'not_repeatable_in_process', f"PYTHONHASHSEED={hs}: two runs in one interpreter differ: "
                                   f"{diff_keys(r['first'], r['second'])}"))
            ref_hs, ref = res[0]
            for hs, r in res[1:]:
                if r['first'] != ref['first']:
                    out.append(O.V('C10', 'differs_across_hashseeds', f"PYTHONHASHSEED={hs} vs {ref_hs}: outputs differ in "
                                   f"{diff_keys(r['first'], ref['first'])} (alg {sc['alg']['kind']})"))
            st0 = ref['first']['status']
            state.count(f"status={st0}")
            state.count(f"alg={sc['alg']['kind']}")
            if sc.get('delay_model'):
                state.count(f"delay_model={sc['delay_model']['dist']}")
            if st0 != 'completed':
                state.aborted += 1
            if ref['first'].get('ready_ge2'):
                state.nontrivial.add(case_hash(sc))
                state.sample({'scenario': brief(sc), 'digests': {k: ref['first'].get(k) for k in ('df', 'tasks', 'events', 'end')},
                              'rounds_with_ge2_ready_tasks': ref['first']['ready_ge2']})
            for v in out:
                v['sig'] = v['part']
            return state.split_known(out)
        return body

    def replay_case(self, sc, state):
        ch = Children(self.hashseeds['quick'])
        try:
            return self.body_with(ch)(sc, state)
        finally:
            ch.close()

    def run_shard(self, state, tier, seed, shard, nshards, cases=None):
        k = len(self.hashseeds[tier])
        active = max(1, 16 // (k + 1))          # shards that actually run children
        if shard >= active:
            return
        ch = Children(self.hashseeds[tier])
        try:
            total = cases or self.cases[tier]
            run_given(state, self.strategy(tier), self.body_with(ch), max(1, total // active),
                      shard_seed(seed, self.prop, shard))
        finally:
            ch.close()
        state.extra['max_interpreters_per_case'] = k


def diff_keys(a, b):
    return [k for k in sorted(set(a) | set(b)) if a.get(k) != b.get(k)]


register(C10)
