"""Component-level property specs (cluster operation histories, task runtime, plans, delay model,
timestep units, buffer tier moves) - cheap cases, large counts, bounded exhaustive enumeration in
the thorough tier."""
import itertools
import json
import math

from hypothesis import strategies as st
from hypothesis.stateful import RuleBasedStateMachine, invariant, precondition, rule

from . import oracles as O
from .engine import HarnessError, case_hash, run_given, run_machine, shard_seed
from .props_sim import SPECS as SIM_SPECS, SimSpec, mix, brief
from .scenario import scenarios

SPECS = {}


def register(cls):
    SPECS[cls.prop] = cls()
    return cls


# ========================================================================================= C02

NAMES = ['a', 'b', 'c']


def ops_strategy(n):
    prov = st.tuples(st.just('provision'), st.integers(1, n + 1), st.sampled_from(NAMES))
    rel = st.tuples(st.just('release'), st.sampled_from(NAMES))
    ing = st.tuples(st.just('ingest'), st.integers(1, n), st.integers(1, 4))
    alloc = st.tuples(st.just('allocate'), st.integers(0, 4), st.integers(0, n - 1),
                      st.sampled_from([None] + NAMES))
    adv = st.tuples(st.just('advance'), st.integers(1, 3))
    return st.one_of(prov, rel, ing, alloc, alloc, adv, adv).map(list)


def history_strategy():
    return st.integers(1, 5).flatmap(
        lambda n: st.tuples(st.just(n), st.integers(1, n),
                            st.lists(ops_strategy(n), min_size=1, max_size=40)).map(list))


def legal_history(n, max_ingest, ops):
    """drop operations whose caller-side precondition does not hold (a live name is provisioned at
    most once - BatchProcessing._provision_resources checks is_observation_provisioned first)"""
    from .clusterops import ClusterOpsModel
    m = ClusterOpsModel(n, max_ingest)
    out = []
    for i, op in enumerate(ops):
        if m.dead:
            break
        if op[0] == 'provision' and op[2] in m.tr.res_live:
            continue
        if op[0] == 'release' and op[1] not in m.tr.res_live and m.tr.res_live and i % 3:
            live = sorted(m.tr.res_live)
            op = ['release', live[i % len(live)]]      # steer most releases to live reservations
        out += m.apply(op)
    return m, out


class C02(SimSpec):
    prop = 'C02'
    cases = {'quick': 240, 'thorough': 8000}
    hist_cases = {'quick': 1600, 'thorough': 40000}
    technique = ("property-based testing: generated cluster operation histories (and bounded exhaustive enumeration of them) "
                 "plus whole simulations, against a shadow pool model")
    rule = ("(a) operation histories on a real Cluster of 1-5 machines: provision / release / ingest / allocate on any machine "
            "class with any observation tag / advance, up to 40 operations (thorough also enumerates ALL histories up to depth 4 "
            "on 1-2 machines); (b) simulation trajectories, pools checked after every SimPy event. Non-trivial history = contains "
            ">= 1 refusal and at least one each of accepted reservation, ingest and allocation; non-trivial trajectory = >= 2 pool "
            "kinds non-empty at once; distinct = distinct canonical history / scenario JSON")
    level_text = ("exploration: after every operation / event the four pools partition the machine set, ingest/occupied pools "
                  "equal the machines with an active ingest/task allocation in the shadow model, reservation keys equal the "
                  "shadow's live reservations, a refused call leaves pools and counters unchanged, to_df()/usage counters equal "
                  "the shadow's counts at settled points, and a completed simulation ends with everything available")

    def strategy(self, tier):
        kw = self.gen_kwargs(tier)
        return mix((3, scenarios(delays=True, min_obs=2, **kw)), (1, scenarios(adversary=True, **kw)))

    def aborted(self, tr):
        return tr.status != 'completed' and tr.sc['alg']['kind'] != 'adversary'

    def nontrivial(self, tr):
        return tr.extra.get('two_pool_kinds', False)

    def run(self, sc):
        from .runner import run_scenario

        def every(tr):
            r = tr.pools()
            kinds = (1 if r['ingest'] else 0) + (1 if r['occupied'] else 0) + (1 if any(r['idle'].values()) else 0)
            if kinds >= 2:
                tr.extra['two_pool_kinds'] = True
        return run_scenario(sc, every_event=every)

    # ---- histories
    def hist_body(self, case, state):
        n, max_ingest, ops = case
        m, viol = legal_history(n, max_ingest, ops)
        state.evaluations += 1
        for k, v in m.classes.items():
            state.count('ops:' + k, v)
        viol = [v for v in viol if v['prop'] == 'C02']
        for v in viol:
            v['sig'] = v['part']
        if m.nontrivial():
            state.nontrivial.add(case_hash(['hist', n, max_ingest, m.ops]))
            state.sample({'machines': n, 'max_ingest': max_ingest, 'history': m.ops[:25],
                          'final_pools': __import__('vt.trace', fromlist=['x']).pools_snapshot(m.cluster)})
        return state.split_known(viol)

    def body(self, case, state):
        if isinstance(case, list):
            return self.hist_body(case, state)
        return super().body(case, state)

    def replay_case(self, case, state):
        return self.body(case, state)

    def enumerate_histories(self, state, shard, nshards, n, depth):
        alphabet = []
        for name in NAMES[:2]:
            for size in range(1, n + 1):
                alphabet.append(['provision', size, name])
            alphabet.append(['release', name])
        for demand in range(1, n + 1):
            for dur in (1, 2):
                alphabet.append(['ingest', demand, dur])
        for dur in (0, 2):
            for mi in range(n):
                for obs in [None] + NAMES[:2]:
                    alphabet.append(['allocate', dur, mi, obs])
        alphabet.append(['advance', 1])
        total = 0
        for i, seq in enumerate(itertools.product(alphabet, repeat=depth)):
            if i % nshards != shard:
                continue
            total += 1
            bad = self.hist_body([n, n, [list(op) for op in seq]], state)
            if bad:
                state.failures.append(([n, n, [list(op) for op in seq]], bad))
                if len(state.failures) > 20:
                    break
        state.extra[f'enumerated_n{n}_depth{depth}'] = total
        state.extra[f'max_alphabet_n{n}'] = len(alphabet)

    def run_shard(self, state, tier, seed, shard, nshards, cases=None):
        total_h = cases or self.hist_cases[tier]
        run_given(state, history_strategy(), self.hist_body, max(1, total_h // nshards),
                  shard_seed(seed, self.prop, shard, 'hist'))
        if state.failures:
            return
        if tier == 'thorough':
            self.enumerate_histories(state, shard, nshards, 1, 5)
            self.enumerate_histories(state, shard, nshards, 2, 4)
            state.extra['exhaustive_part'] = "all operation histories: depth 5 on 1 machine, depth 4 on 2 machines (alphabets in coverage)"
        else:
            self.enumerate_histories(state, shard, nshards, 1, 3)
        if state.failures:
            return
        total = cases or self.cases[tier]
        run_given(state, self.strategy(tier), self.body, max(1, total // nshards), shard_seed(seed, self.prop, shard, 'sim'))


register(C02)


# ========================================================================================= C06

def make_config(unit, cluster=None, buffer=None, instrument=None):
    from topsim.core.config import Config
    cfg = Config.__new__(Config)
    cfg.path = __import__('pathlib').Path('/nonexistent/sim.json')
    cfg.cluster = cluster
    cfg.buffer = buffer
    cfg.instrument = instrument
    cfg.timestep_unit = unit
    return cfg


def run_task(flops, bw, unit, comp, data, extra):
    """one Task.do_work on one Machine parsed through the real Config; returns (ast, aft, exit time, flag)"""
    import simpy
    from topsim.core.task import Task
    from .plans import FixedExtra
    cfg = make_config(unit, cluster={'system': {'resources': {'m0': {'flops': flops, 'compute_bandwidth': bw}},
                                                'system_bandwidth': 1.0}})
    machines, _ = cfg.parse_cluster_config()
    m = machines[0]
    env = simpy.Environment()
    t = Task('t', 0, 0, None, [], comp, data, {}, FixedExtra(extra) if extra else None)
    env.process(t.do_work(env, m, None))
    env.run()
    return t.ast, t.aft, env.now, t.delay_flag, m


def c06_case_strategy():
    units = st.sampled_from(['seconds', 'minutes', 'hours', 1, 2, 7, 60, 3600])
    speed = st.integers(1, 50)

    def build(t):
        f, b, u, kc, dc, kd, dd, extra, mode = t
        from .scenario import unit_factor
        uf = unit_factor(u)
        cpu, bwu = f * uf, b * uf
        comp = max(0, kc * cpu + dc)
        data = max(0, kd * bwu + dd) if mode else 0
        return {'flops': f, 'bw': b, 'unit': u, 'comp': comp, 'data': data, 'extra': extra}
    return st.tuples(speed, speed, units, st.integers(0, 6), st.integers(-2, 2), st.integers(0, 6),
                     st.integers(-2, 2), st.sampled_from([0, 0, 0, 1, 2, 5]), st.booleans()).map(build)


class C06(SimSpec):
    prop = 'C06'
    cases = {'quick': 240, 'thorough': 8000}
    comp_cases = {'quick': 4000, 'thorough': 100000}
    technique = "property-based testing: generated (work, speed, unit, delay) cases against the closed-form runtime + metamorphic monotonicity; whole simulations"
    rule = ("(a) component: one Task.do_work on one Machine parsed by the real Config from generated (flops, bandwidth, unit, compute, "
            "data, injected delay), boundary values k*speed-2..k*speed+2, plus metamorphic pairs (more work / slower machine / more "
            "delay); (b) simulation runs as in C03. Non-trivial component case = at least one of floor(c/s), floor(d/b), extra in "
            "{0,1,2}; non-trivial simulation = it executed a task whose data time dominates or a sub-step task; distinct = distinct (c//s, d//b, extra, unit) or scenario JSON")
    level_text = ("exploration: aft - ast == max(1, max(floor(c/s), floor(d/b)) + extra) and the do_work body spans exactly that many "
                  "steps; ingest tasks run exactly the observation duration; machine handed back no later than ceil(aft); runtime "
                  "monotone in work, in 1/speed and in delay")

    def strategy(self, tier):
        kw = self.gen_kwargs(tier)
        return mix((2, scenarios(delays=True, units=True, **kw)), (1, scenarios(delays=True, piled_plans=True, **kw)))

    def nontrivial(self, tr):
        so = O.scenario_obs(tr)
        specs = O.machine_specs(tr)
        for name, nodes in O.workflow_view(tr).items():
            nd = {n['id']: n for n in so[name]['wf']['nodes']}
            for nid, rec in nodes.items():
                for w in rec['works']:
                    sp = specs[w['machine']]
                    c, d = int(nd[nid]['comp'] / sp['cpu']), int(nd[nid].get('task_data', 0) / sp['bw'])
                    if d > c or max(c, d) == 0:
                        return True
        return False

    def comp_body(self, case, state):
        from .scenario import unit_factor
        state.evaluations += 1
        uf = unit_factor(case['unit'])
        cpu, bw = case['flops'] * uf, case['bw'] * uf
        kc, kd = case['comp'] // cpu, case['data'] // bw
        want = max(1, max(kc, kd) + case['extra'])
        out = []
        ast, aft, end, flag, m = run_task(case['flops'], case['bw'], case['unit'], case['comp'], case['data'], case['extra'])
        if m.cpu != cpu or m.bandwidth != bw:
            out.append(O.V('C06', 'unit_scaling', f"{case}: machine parsed as cpu={m.cpu} bw={m.bandwidth}, expected {cpu}/{bw}"))
        if aft - ast != want:
            out.append(O.V('C06', 'runtime', f"{case}: ran {aft - ast} steps, expected {want}"))
        if end + 1 - ast != want:
            out.append(O.V('C06', 'body_span', f"{case}: body occupied {end + 1 - ast} steps, expected {want}"))
        if case['extra'] > 0 and not flag:
            out.append(O.V('C06', 'delay_not_flagged', f"{case}: delayed task not flagged"))
        # metamorphic monotonicity
        base = aft - ast
        for key, delta in (('comp', cpu // 2 + 1), ('comp', cpu), ('data', bw), ('extra', 1)):
            c2 = dict(case)
            c2[key] = case[key] + delta
            a2, f2, _, _, _ = run_task(c2['flops'], c2['bw'], c2['unit'], c2['comp'], c2['data'], c2['extra'])
            if f2 - a2 < base:
                out.append(O.V('C06', 'not_monotone', f"more {key} ({case[key]} -> {c2[key]}) finished sooner: {base} -> {f2 - a2} ({case})"))
        if case['flops'] > 1:
            a2, f2, _, _, _ = run_task(case['flops'] - 1, case['bw'], case['unit'], case['comp'], case['data'], case['extra'])
            if f2 - a2 < base:
                out.append(O.V('C06', 'not_monotone', f"slower machine finished sooner: {base} -> {f2 - a2} ({case})"))
        state.count(f"comp:kc={min(kc, 3)}")
        state.count(f"comp:kd={min(kd, 3)}")
        if kd > kc:
            state.count('comp:data_dominates')
        if min(kc, 9) <= 2 or min(kd, 9) <= 2 or case['extra'] <= 2:
            state.nontrivial.add(case_hash(['comp', kc, kd, case['extra'], str(case['unit'])]))
            state.sample({'case': case, 'ast': ast, 'aft': aft, 'expected_runtime': want})
        for v in out:
            v['sig'] = v['part']
        return state.split_known(out)

    def body(self, case, state):
        if 'flops' in case:
            return self.comp_body(case, state)
        return super().body(case, state)

    def replay_case(self, case, state):
        return self.body(case, state)

    def run_shard(self, state, tier, seed, shard, nshards, cases=None):
        total_c = cases or self.comp_cases[tier]
        run_given(state, c06_case_strategy(), self.comp_body, max(1, total_c // nshards),
                  shard_seed(seed, self.prop, shard, 'comp'))
        if state.failures:
            return
        total = cases or self.cases[tier]
        run_given(state, self.strategy(tier), self.body, max(1, total // nshards), shard_seed(seed, self.prop, shard, 'sim'))


register(C06)


# ========================================================================================= C14

C14_NAME_ALPHABET = 'abcxyz0123_'


@st.composite
def c14_cases(draw, max_nodes=14):
    from .scenario import dags
    wf = draw(dags(max_nodes=max_nodes))
    # arbitrary node labels: permuted ints, possibly with gaps
    if draw(st.booleans()):
        k = draw(st.integers(2, 5))
        off = draw(st.integers(0, 20))
        ren = {n['id']: n['id'] * k + off for n in wf['nodes']}
        wf = {'nodes': [dict(n, id=ren[n['id']]) for n in wf['nodes']],
              'edges': [[ren[u], ren[v], x] for u, v, x in wf['edges']]}
    name = draw(st.text(C14_NAME_ALPHABET, min_size=1, max_size=6))
    clock = draw(st.sampled_from([0, 1, 7, 10, 123]))
    return {'wf': wf, 'name': name, 'clock': clock, 'duration': draw(st.integers(1, 9)),
            'rate': draw(st.integers(1, 9))}


def build_plan(case, planner_cls=None):
    """Planner.run(...) of the shipped BatchPlanning on a workflow file written from the case"""
    import os
    import shutil
    import tempfile
    import simpy
    from topsim.core.buffer import Buffer
    from topsim.core.cluster import Cluster
    from topsim.core.instrument import Observation
    from topsim.core.planner import Planner
    from topsim.user.plan.batch_planning import BatchPlanning
    from .clusterops import StubConfig
    from .plans import batch_literal
    from .scenario import workflow_json
    d = tempfile.mkdtemp(prefix='vt14_')
    try:
        p = os.path.join(d, 'wf.json')
        with open(p, 'w') as f:
            json.dump(workflow_json(case['wf']), f)
        env = simpy.Environment(initial_time=case['clock'])
        cluster = Cluster(env, StubConfig([(10, 5), (20, 5)]))
        cfg = make_config('seconds', buffer={'hot': {'capacity': 1000, 'max_ingest_rate': 100},
                                             'cold': {'capacity': 1000, 'max_data_rate': 10}})
        model = BatchPlanning(batch_literal())
        planner = Planner(env, cluster, model, None)
        buffer = Buffer(env, cluster, planner, cfg)
        obs = Observation(case['name'], 0, case['duration'], 1, p, case['rate'])
        return planner.run(obs, buffer, 3)
    finally:
        shutil.rmtree(d, ignore_errors=True)


def check_plan(case, plan):
    out = []
    wf = case['wf']
    nodes = {n['id']: n for n in wf['nodes']}
    edges = {(u, v): x for u, v, x in wf['edges']}
    tasks = list(plan.tasks)
    if len(tasks) != len(nodes):
        out.append(O.V('C14', 'task_count', f"{len(tasks)} tasks for {len(nodes)} nodes"))
    ids = [t.id for t in tasks]
    if len(set(ids)) != len(ids):
        out.append(O.V('C14', 'duplicate_ids', f"task ids not unique: {ids}"))
    by_gid = {}
    for t in tasks:
        if t.graph_id in by_gid:
            out.append(O.V('C14', 'node_twice', f"node {t.graph_id} has two tasks"))
        by_gid[t.graph_id] = t
        if case['name'] not in str(t.id):
            out.append(O.V('C14', 'id_without_name', f"task id {t.id} does not carry the observation name {case['name']}"))
    if set(by_gid) != set(nodes):
        out.append(O.V('C14', 'node_set', f"tasks cover nodes {sorted(by_gid)} but the graph has {sorted(nodes)}"))
        return out
    tid = {g: t.id for g, t in by_gid.items()}
    for g, t in by_gid.items():
        n = nodes[g]
        if t.flops != n['comp']:
            out.append(O.V('C14', 'compute', f"node {g}: task flops {t.flops} != comp {n['comp']}"))
        if t.task_data != n.get('task_data', 0):
            out.append(O.V('C14', 'data', f"node {g}: task data {t.task_data} != {n.get('task_data', 0)}"))
        want_pred = sorted(tid[u] for (u, v) in edges if v == g)
        if sorted(t.pred) != want_pred:
            out.append(O.V('C14', 'pred_list', f"node {g}: predecessor list {sorted(t.pred)} != {want_pred}"))
        want_io = {tid[u]: x for (u, v), x in edges.items() if v == g}
        if dict(t.io) != want_io:
            out.append(O.V('C14', 'edge_volumes', f"node {g}: transfer volumes {t.io} != {want_io}"))
    gedges = {(a.graph_id, b.graph_id) for a, b in plan.graph.edges()}
    if gedges != set(edges) or plan.graph.number_of_nodes() != len(nodes):
        out.append(O.V('C14', 'graph_edges', f"plan graph edges {sorted(gedges)} != workflow edges {sorted(edges)}"))
    for (a, b, data) in plan.graph.edges(data=True):
        if data.get('transfer_data') != edges.get((a.graph_id, b.graph_id)):
            out.append(O.V('C14', 'graph_edge_volume', f"plan graph edge {a.graph_id}->{b.graph_id} carries {data}"))
    pos = {t.graph_id: i for i, t in enumerate(tasks)}
    for (u, v) in edges:
        if pos[u] > pos[v]:
            out.append(O.V('C14', 'not_topological', f"task list has {v} before its predecessor {u}"))
            break
    # predecessor / successor queries agree with the graph
    for g, t in by_gid.items():
        preds = {p.graph_id for p in plan.get_task_predecessors(t)}
        succs = {s.graph_id for s in plan.get_task_successors(t)}
        want_p = {u for (u, v) in edges if v == g}
        want_s = {v for (u, v) in edges if u == g}
        if preds != want_p:
            out.append(O.V('C14', 'pred_query', f"node {g}: predecessor query {sorted(preds)} != {sorted(want_p)}"))
        if succs != want_s:
            out.append(O.V('C14', 'succ_query', f"node {g}: successor query {sorted(succs)} != {sorted(want_s)}"))
    return out


class C14:
    prop = 'C14'
    cases = {'quick': 3200, 'thorough': 60000}
    technique = "property-based testing: generated DAG JSON, plan compared structurally with the graph (round trip)"
    rule = ("generated workflow DAG files (1-14 nodes, permuted / gapped labels, any density, isolated nodes, with and without "
            "task_data), observation names containing '_' and digits, clocks; the plan returned by Planner.run with the shipped "
            "BatchPlanning is compared with the JSON graph; non-trivial = graph with >= 1 node of in-degree >= 2 and >= 1 node of "
            "out-degree >= 2; distinct = distinct canonical case JSON")
    level_text = ("exploration: bijection node<->task, unique ids carrying the observation name, compute/data demands, predecessor id "
                  "lists, per-edge volumes keyed by predecessor id, relabelled graph with exactly the mapped edges, topological task "
                  "order, and predecessor/successor queries that agree with the graph in both directions")
    assumptions = ["only the shipped BatchPlanning is the subject (SHADOWPlanning needs the `shadow` scheduling library, which is not importable on this image)"]

    def body(self, case, state):
        state.evaluations += 1
        try:
            plan = build_plan(case)
        except Exception as e:
            from .trace import harness_frame_innermost, repo_frame
            if harness_frame_innermost(e):
                raise
            v = O.V('C14', 'planner_raised', f"{type(e).__name__}@{repo_frame(e)}: {e}")
            v['sig'] = v['part']
            return state.split_known([v])
        out = check_plan(case, plan)
        indeg, outdeg = {}, {}
        for u, v, _ in case['wf']['edges']:
            outdeg[u] = outdeg.get(u, 0) + 1
            indeg[v] = indeg.get(v, 0) + 1
        n = len(case['wf']['nodes'])
        state.count(f"nodes={min(n, 10)}{'+' if n >= 10 else ''}")
        if not case['wf']['edges']:
            state.count('no_edges')
        if '_' in case['name']:
            state.count('name_with_underscore')
        if any(v >= 2 for v in indeg.values()) and any(v >= 2 for v in outdeg.values()):
            state.nontrivial.add(case_hash(case))
            state.sample({'case': case, 'task_ids': [t.id for t in plan.tasks][:6]})
        for v in out:
            v['sig'] = v['part']
        return state.split_known(out)

    def replay_case(self, case, state):
        return self.body(case, state)

    def run_shard(self, state, tier, seed, shard, nshards, cases=None):
        total = cases or self.cases[tier]
        run_given(state, c14_cases(14 if tier == 'quick' else 20), self.body, max(1, total // nshards),
                  shard_seed(seed, self.prop, shard))


register(C14)


# ========================================================================================= C15

DEGREES = ['LOW', 'MID', 'HIGH', 'NONE']
DISTS = ['normal', 'poisson', 'uniform']


def delay_case_violations(case):
    from topsim.core.delay import DelayModel
    out = []
    deg = DelayModel.DelayDegree[case['degree']]

    def mk():
        return DelayModel(case['prob'], case['dist'], deg, seed=case['seed'])
    try:
        m1 = mk()
        r1 = m1.generate_delay(case['runtime'])
        r1b = m1.generate_delay(case['runtime'])
        r2 = mk().generate_delay(case['runtime'])
    except Exception as e:
        from .trace import harness_frame_innermost, repo_frame
        if harness_frame_innermost(e):
            raise
        return [O.V('C15', 'raised', f"{case}: generate_delay raised {type(e).__name__}@{repo_frame(e)}: {e}")], None
    rt = case['runtime']
    if r1 < rt:
        out.append(O.V('C15', 'shortened', f"{case}: returned {r1} < runtime {rt}"))
    if (case['degree'] == 'NONE' or case['prob'] == 0 or rt == 0) and r1 != rt:
        out.append(O.V('C15', 'delay_when_none', f"{case}: returned {r1} != runtime {rt} although degree none / prob 0 / runtime 0"))
    if r1 != r2:
        out.append(O.V('C15', 'not_reproducible', f"{case}: two fresh models returned {r1} and {r2}"))
    if r1 != r1b:
        out.append(O.V('C15', 'not_repeatable', f"{case}: two calls on one model returned {r1} and {r1b}"))
    if isinstance(r1, float) and r1 != int(r1):
        out.append(O.V('C15', 'fractional', f"{case}: returned a fractional number of timesteps {r1}"))
    return out, r1


class C15(SimSpec):
    prop = 'C15'
    cases = {'quick': 240, 'thorough': 6000}
    comp_cases = {'quick': 6000, 'thorough': 0}
    technique = "property-based testing + exhaustive grid over the delay model's arguments; simulations with injected delay vectors"
    rule = ("(a) DelayModel.generate_delay over {normal, poisson, uniform} x 4 degrees x probabilities x seeds x runtimes 0..200 "
            "(quick: Hypothesis sample incl. arbitrary float probabilities and seeds to 2^32; thorough: the full grid "
            "3 x 4 x {0,.1,.5,1} x seeds 0..49 x runtimes 0..200 = 482 400 cases, exhaustive); (b) simulations with injected per-task "
            "delay vectors. Non-trivial component case = a delay was actually added (result > runtime); non-trivial simulation = a "
            "delayed task finished; distinct = distinct case / scenario JSON")
    level_text = ("exploration (grid part exhaustive in the thorough tier): no exception; result >= runtime; == runtime for degree none, "
                  "prob 0 or runtime 0; equal for equal seed and arguments (fresh models and repeated calls); in simulations every task "
                  "that received extra steps is flagged and the schedule status is DELAYED from the second row after its completion")

    def strategy(self, tier):
        kw = self.gen_kwargs(tier)

        def force(sc):
            if not sc['delays']:
                o = sc['obs'][0]
                sc = json.loads(json.dumps(sc))
                sc['delays'][f"{o['name']}:{o['wf']['nodes'][0]['id']}"] = 2
            return sc
        return scenarios(delays=True, **kw).map(force)

    def violations(self, tr):
        return O.C15_sim(tr)

    def nontrivial(self, tr):
        return bool(tr.counts.get('delayed_tasks_finished'))

    def comp_body(self, case, state):
        state.evaluations += 1
        out, r = delay_case_violations(case)
        state.count(f"dist={case['dist']}")
        state.count(f"degree={case['degree']}")
        if r is not None and r > case['runtime']:
            state.count('delay_added')
            state.nontrivial.add(case_hash(case))
            state.sample({'case': case, 'returned': r})
        for v in out:
            v['sig'] = v['part']
        return state.split_known(out)

    def body(self, case, state):
        if 'dist' in case:
            return self.comp_body(case, state)
        return super().body(case, state)

    def replay_case(self, case, state):
        return self.body(case, state)

    def run_shard(self, state, tier, seed, shard, nshards, cases=None):
        if tier == 'quick':
            strat = st.fixed_dictionaries({
                'dist': st.sampled_from(DISTS), 'degree': st.sampled_from(DEGREES),
                'prob': st.one_of(st.sampled_from([0, 0.0, 0.1, 0.5, 1, 1.0]), st.floats(0, 1)),
                'seed': st.one_of(st.integers(0, 60), st.integers(0, 2 ** 32 - 1)),
                'runtime': st.one_of(st.integers(0, 5), st.integers(0, 200))})
            run_given(state, strat, self.comp_body, max(1, (cases or self.comp_cases[tier]) // nshards),
                      shard_seed(seed, self.prop, shard, 'comp'))
        else:
            grid = itertools.product(DISTS, DEGREES, [0, 0.1, 0.5, 1], range(50), range(201))
            n = 0
            for i, (d, g, p, s, r) in enumerate(grid):
                if i % nshards != shard:
                    continue
                n += 1
                case = {'dist': d, 'degree': g, 'prob': p, 'seed': s, 'runtime': r}
                bad = self.comp_body(case, state)
                if bad:
                    state.failures.append((case, bad))
                    if len(state.failures) > 10:
                        break
            state.extra['grid_cases'] = n
            state.extra['exhaustive_part'] = "DelayModel grid 3 dists x 4 degrees x 4 probs x 50 seeds x 201 runtimes"
        if state.failures:
            return
        total = cases or self.cases[tier]
        run_given(state, self.strategy(tier), self.body, max(1, total // nshards), shard_seed(seed, self.prop, shard, 'sim'))


register(C15)
