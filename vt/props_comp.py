"""Component-level property specs (cluster operation histories, task runtime, plans, delay model,
timestep units, buffer tier moves) - cheap cases, large counts, bounded exhaustive enumeration in
the thorough tier."""
import itertools
import json
import math

from hypothesis import strategies as st
from hypothesis.stateful import RuleBasedStateMachine, invariant, precondition, rule

from . import oracles as O
from .engine import HarnessError, case_hash, run_given, run_machine, shard_seed
from .props_sim import SPECS as SIM_SPECS, SimSpec, mix, brief, swarm
from .scenario import scenarios

SPECS = {}


def register(cls):
    SPECS[cls.prop] = cls()
    return cls


# ========================================================================================= C02

NAMES = ['a', 'b', 'c']


def ops_strategy(n):
    prov = st.tuples(st.just('provision'), st.integers(1, n + 1), st.sampled_from(NAMES))
    rel = st.tuples(st.just('release'), st.sampled_from(NAMES))
    ing = st.one_of(st.tuples(st.just('ingest'), st.integers(1, n), st.integers(1, 4)),
                    st.tuples(st.just('ingest'), st.integers(1, n), st.integers(1, 4)),
                    st.tuples(st.just('ingest_force'), st.integers(1, n + 1), st.integers(1, 4)))
    alloc = st.tuples(st.just('allocate'), st.integers(0, 4), st.integers(0, n - 1),
                      st.sampled_from([None] + NAMES))
    adv = st.tuples(st.just('advance'), st.integers(1, 3))
    return st.one_of(prov, rel, ing, alloc, alloc, adv, adv).map(list)


def history_strategy():
    return st.integers(1, 5).flatmap(
        lambda n: st.tuples(st.just(n), st.integers(1, n),
                            st.lists(ops_strategy(n), min_size=1, max_size=40)).map(list))


def legal_history(n, max_ingest, ops):
    """executes a generated history; some operations are steered towards the interesting classes (see below)"""
    from .clusterops import ClusterOpsModel
    m = ClusterOpsModel(n, max_ingest)
    out = []
    for i, op in enumerate(ops):
        if m.dead:
            break
        if op[0] == 'provision' and op[2] in m.tr.res_live and i % 2:
            continue      # the shipped BatchProcessing never re-provisions a live name; a user algorithm may top one up:
                          # half of such operations are kept
        if op[0] == 'release' and op[1] not in m.tr.res_live and m.tr.res_live and i % 3:
            live = sorted(m.tr.res_live)
            op = ['release', live[i % len(live)]]      # steer most releases to live reservations
        if op[0] == 'allocate' and i % 2:
            res = m.tr.m[f"m{op[2]}"]['res']
            if res is not None and op[3] != res:
                op = ['allocate', op[1], op[2], res]   # steer half of the allocations on reserved machines to their owner
        out += m.apply(op)
    # drain: let every allocation in flight complete so that completions after the last operation are judged too
    guard = 0
    while not m.dead and not out and any(s_['alloc'] is not None or s_['promised'] is not None for s_ in m.tr.m.values()) and guard < 12:
        out += m.apply(['advance', 1])
        guard += 1
    return m, out


class C02(SimSpec):
    prop = 'C02'
    cases = {'quick': 240, 'thorough': 8000}
    hist_cases = {'quick': 1600, 'thorough': 40000}
    technique = ("property-based testing: generated cluster operation histories (and bounded exhaustive enumeration of them) "
                 "plus whole simulations, against a shadow pool model")
    rule = ("(a) operation histories on a real Cluster of 1-5 machines: provision (incl. topping up a live reservation) / release / "
            "ingest through the capacity check / ingest provisioning without it (may be refused) / allocate on any machine "
            "class with any observation tag / advance, up to 40 operations, drained at the end (thorough also enumerates ALL histories up to depth 4 "
            "on 1-2 machines); (b) simulation trajectories, pools checked after every SimPy event. Non-trivial history = contains "
            ">= 1 refusal and at least one each of accepted reservation, ingest and allocation; non-trivial trajectory = >= 2 pool "
            "kinds non-empty at once; distinct = distinct canonical history / scenario JSON")
    level_text = ("exploration: after every operation / event the four pools partition the machine set, ingest/occupied pools "
                  "equal the machines with an active ingest/task allocation in the shadow model, reservation keys equal the "
                  "shadow's live reservations, a refused call leaves pools and counters unchanged, to_df()/usage counters equal "
                  "the shadow's counts at settled points, and a completed simulation ends with everything available")

    def strategy(self, tier):
        kw = self.gen_kwargs(tier)
        from .props_sim import crowd
        return mix((3, scenarios(delays=True, min_obs=2, **kw)), (2, crowd(kw, delays=True)),
                   (1, scenarios(adversary=True, **kw)))

    def aborted(self, tr):
        return tr.status != 'completed' and tr.sc['alg']['kind'] != 'adversary'

    def nontrivial(self, tr):
        return tr.extra.get('two_pool_kinds', False)

    def run(self, sc):
        from .runner import run_scenario

        def every(tr):
            r = tr.pools()
            kinds = (1 if r['ingest'] else 0) + (1 if r['occupied'] else 0) + (1 if any(r['idle'].values()) else 0)
            if kinds >= 2:
                tr.extra['two_pool_kinds'] = True
        return run_scenario(sc, every_event=every)

    # ---- histories
    def hist_body(self, case, state):
        n, max_ingest, ops = case
        m, viol = legal_history(n, max_ingest, ops)
        state.evaluations += 1
        for k, v in m.classes.items():
            state.count('ops:' + k, v)
        viol = [v for v in viol if v['prop'] == 'C02']
        for v in viol:
            v['sig'] = v['part']
        if m.nontrivial():
            state.nontrivial.add(case_hash(['hist', n, max_ingest, m.ops]))
            state.sample({'machines': n, 'max_ingest': max_ingest, 'history': m.ops[:25],
                          'final_pools': __import__('vt.trace', fromlist=['x']).pools_snapshot(m.cluster)})
        return state.split_known(viol)

    def body(self, case, state):
        if isinstance(case, list):
            return self.hist_body(case, state)
        return super().body(case, state)

    def replay_case(self, case, state):
        return self.body(case, state)

    def enumerate_histories(self, state, shard, nshards, n, depth):
        alphabet = []
        for name in NAMES[:2]:
            for size in range(1, n + 1):
                alphabet.append(['provision', size, name])
            alphabet.append(['release', name])
        for demand in range(1, n + 1):
            for dur in (1, 2):
                alphabet.append(['ingest', demand, dur])
        alphabet.append(['ingest_force', n, 1])
        alphabet.append(['ingest_force', n + 1, 1])
        for dur in (0, 2):
            for mi in range(n):
                for obs in [None] + NAMES[:2]:
                    alphabet.append(['allocate', dur, mi, obs])
        alphabet.append(['advance', 1])
        total = 0
        for i, seq in enumerate(itertools.product(alphabet, repeat=depth)):
            if i % nshards != shard:
                continue
            total += 1
            bad = self.hist_body([n, n, [list(op) for op in seq]], state)
            if bad:
                state.failures.append(([n, n, [list(op) for op in seq]], bad))
                if len(state.failures) > 20:
                    break
        state.extra[f'enumerated_n{n}_depth{depth}'] = total
        state.extra[f'max_alphabet_n{n}'] = len(alphabet)

    def run_shard(self, state, tier, seed, shard, nshards, cases=None):
        total_h = cases or self.hist_cases[tier]
        run_given(state, history_strategy(), self.hist_body, max(1, total_h // nshards),
                  shard_seed(seed, self.prop, shard, 'hist'))
        if state.failures:
            return
        if tier == 'thorough':
            self.enumerate_histories(state, shard, nshards, 1, 5)
            self.enumerate_histories(state, shard, nshards, 2, 4)
            state.extra['exhaustive_part'] = "all operation histories: depth 5 on 1 machine, depth 4 on 2 machines (alphabets in coverage)"
        else:
            self.enumerate_histories(state, shard, nshards, 1, 3)
        if state.failures:
            return
        total = cases or self.cases[tier]
        run_given(state, self.strategy(tier), self.body, max(1, total // nshards), shard_seed(seed, self.prop, shard, 'sim'))


register(C02)


# ========================================================================================= C06

def make_config(unit, cluster=None, buffer=None, instrument=None):
    from topsim.core.config import Config
    cfg = Config.__new__(Config)
    cfg.path = __import__('pathlib').Path('/nonexistent/sim.json')
    cfg.cluster = cluster
    cfg.buffer = buffer
    cfg.instrument = instrument
    cfg.timestep_unit = unit
    return cfg


def run_task(flops, bw, unit, comp, data, extra):
    """one Task.do_work on one Machine parsed through the real Config; returns (ast, aft, exit time, flag)"""
    import simpy
    from topsim.core.task import Task
    from .plans import FixedExtra
    cfg = make_config(unit, cluster={'system': {'resources': {'m0': {'flops': flops, 'compute_bandwidth': bw}},
                                                'system_bandwidth': 1.0}})
    machines, _ = cfg.parse_cluster_config()
    m = machines[0]
    env = simpy.Environment()
    t = Task('t', 0, 0, None, [], comp, data, {}, FixedExtra(extra) if extra else None)
    env.process(t.do_work(env, m, None))
    env.run()
    return t.ast, t.aft, env.now, t.delay_flag, m


def c06_case_strategy():
    units = st.sampled_from(['seconds', 'minutes', 'hours', 1, 2, 7, 60, 3600])
    speed = st.integers(1, 50)

    def build(t):
        f, b, u, kc, dc, kd, dd, extra, mode = t
        from .scenario import unit_factor
        uf = unit_factor(u)
        cpu, bwu = f * uf, b * uf
        comp = max(0, kc * cpu + dc)
        data = max(0, kd * bwu + dd) if mode else 0
        return {'flops': f, 'bw': b, 'unit': u, 'comp': comp, 'data': data, 'extra': extra}
    return st.tuples(speed, speed, units, st.integers(0, 6), st.integers(-2, 2), st.integers(0, 6),
                     st.integers(-2, 2), st.sampled_from([0, 0, 0, 1, 2, 5]), st.booleans()).map(build)


class C06(SimSpec):
    prop = 'C06'
    cases = {'quick': 240, 'thorough': 8000}
    comp_cases = {'quick': 4000, 'thorough': 100000}
    technique = "property-based testing: generated (work, speed, unit, delay) cases against the closed-form runtime + metamorphic monotonicity; whole simulations"
    rule = ("(a) component: one Task.do_work on one Machine parsed by the real Config from generated (flops, bandwidth, unit, compute, "
            "data, injected delay), boundary values k*speed-2..k*speed+2, plus metamorphic pairs (more work / slower machine / more "
            "delay); (b) simulation runs as in C03. Non-trivial component case = at least one of floor(c/s), floor(d/b), extra in "
            "{0,1,2}; non-trivial simulation = it executed a task whose data time dominates or a sub-step task; distinct = distinct (c//s, d//b, extra, unit) or scenario JSON")
    level_text = ("exploration: aft - ast == max(1, max(floor(c/s), floor(d/b)) + extra) and the do_work body spans exactly that many "
                  "steps; ingest tasks run exactly the observation duration; machine handed back no later than ceil(aft); runtime "
                  "monotone in work, in 1/speed and in delay")

    def strategy(self, tier):
        kw = self.gen_kwargs(tier)
        return mix((2, scenarios(delays=True, units=True, **kw)), (1, scenarios(delays=True, piled_plans=True, **kw)))

    def nontrivial(self, tr):
        so = O.scenario_obs(tr)
        specs = O.machine_specs(tr)
        for name, nodes in O.workflow_view(tr).items():
            nd = {n['id']: n for n in so[name]['wf']['nodes']}
            for nid, rec in nodes.items():
                for w in rec['works']:
                    sp = specs[w['machine']]
                    c, d = int(nd[nid]['comp'] / sp['cpu']), int(nd[nid].get('task_data', 0) / sp['bw'])
                    if d > c or max(c, d) == 0:
                        return True
        return False

    def comp_body(self, case, state):
        from .scenario import unit_factor
        state.evaluations += 1
        uf = unit_factor(case['unit'])
        cpu, bw = case['flops'] * uf, case['bw'] * uf
        kc, kd = case['comp'] // cpu, case['data'] // bw
        want = max(1, max(kc, kd) + case['extra'])
        out = []
        ast, aft, end, flag, m = run_task(case['flops'], case['bw'], case['unit'], case['comp'], case['data'], case['extra'])
        if m.cpu != cpu or m.bandwidth != bw:
            out.append(O.V('C06', 'unit_scaling', f"{case}: machine parsed as cpu={m.cpu} bw={m.bandwidth}, expected {cpu}/{bw}"))
        if aft - ast != want:
            out.append(O.V('C06', 'runtime', f"{case}: ran {aft - ast} steps, expected {want}"))
        if end + 1 - ast != want:
            out.append(O.V('C06', 'body_span', f"{case}: body occupied {end + 1 - ast} steps, expected {want}"))
        if case['extra'] > 0 and not flag:
            out.append(O.V('C06', 'delay_not_flagged', f"{case}: delayed task not flagged"))
        # metamorphic monotonicity
        base = aft - ast
        for key, delta in (('comp', cpu // 2 + 1), ('comp', cpu), ('data', bw), ('extra', 1)):
            c2 = dict(case)
            c2[key] = case[key] + delta
            a2, f2, _, _, _ = run_task(c2['flops'], c2['bw'], c2['unit'], c2['comp'], c2['data'], c2['extra'])
            if f2 - a2 < base:
                out.append(O.V('C06', 'not_monotone', f"more {key} ({case[key]} -> {c2[key]}) finished sooner: {base} -> {f2 - a2} ({case})"))
        if case['flops'] > 1:
            a2, f2, _, _, _ = run_task(case['flops'] - 1, case['bw'], case['unit'], case['comp'], case['data'], case['extra'])
            if f2 - a2 < base:
                out.append(O.V('C06', 'not_monotone', f"slower machine finished sooner: {base} -> {f2 - a2} ({case})"))
        state.count(f"comp:kc={min(kc, 3)}")
        state.count(f"comp:kd={min(kd, 3)}")
        if kd > kc:
            state.count('comp:data_dominates')
        if min(kc, 9) <= 2 or min(kd, 9) <= 2 or case['extra'] <= 2:
            state.nontrivial.add(case_hash(['comp', kc, kd, case['extra'], str(case['unit'])]))
            state.sample({'case': case, 'ast': ast, 'aft': aft, 'expected_runtime': want})
        for v in out:
            v['sig'] = v['part']
        return state.split_known(out)

    def body(self, case, state):
        if 'flops' in case:
            return self.comp_body(case, state)
        return super().body(case, state)

    def replay_case(self, case, state):
        return self.body(case, state)

    def run_shard(self, state, tier, seed, shard, nshards, cases=None):
        total_c = cases or self.comp_cases[tier]
        run_given(state, c06_case_strategy(), self.comp_body, max(1, total_c // nshards),
                  shard_seed(seed, self.prop, shard, 'comp'))
        if state.failures:
            return
        total = cases or self.cases[tier]
        run_given(state, self.strategy(tier), self.body, max(1, total // nshards), shard_seed(seed, self.prop, shard, 'sim'))


register(C06)


# ========================================================================================= C14

C14_NAME_ALPHABET = 'abcxyz0123_'


@st.composite
def c14_cases(draw, max_nodes=14):
    from .scenario import dags
    wf = draw(dags(max_nodes=max_nodes))
    # arbitrary node labels: permuted ints, possibly with gaps
    if draw(st.booleans()):
        k = draw(st.integers(2, 5))
        off = draw(st.integers(0, 20))
        ren = {n['id']: n['id'] * k + off for n in wf['nodes']}
        wf = {'nodes': [dict(n, id=ren[n['id']]) for n in wf['nodes']],
              'edges': [[ren[u], ren[v], x] for u, v, x in wf['edges']]}
    elif len(wf['nodes']) <= 18 and draw(st.integers(0, 2)) == 0:
        # string labels in the style of the repository's workflow files (c<channel>_<index>), drawn from a pool in which
        # labels differ only in where the underscore sits, in case, or by a leading zero
        pool = ['c1_10', 'c11_0', 'c1_1', 'c11', 'c_11', 'c1_11', 'c11_1', 'c2_13', 'c21_3', 'c213', 'C1_1', 'c1_01', 'c10_1',
                'c1_0_1', 'c10_', '_c10', 'c1__0', 'c1_0']
        labels = draw(st.permutations(pool))[:len(wf['nodes'])]
        ren = {n['id']: labels[i] for i, n in enumerate(wf['nodes'])}
        wf = {'nodes': [dict(n, id=ren[n['id']]) for n in wf['nodes']],
              'edges': [[ren[u], ren[v], x] for u, v, x in wf['edges']]}
    if draw(st.integers(0, 3)) == 0:
        # demands that are not whole numbers (JSON numbers; the repository's files write 7.14e4)
        wf = {'nodes': [dict(n, comp=n['comp'] + draw(st.sampled_from([0, 0.5, 0.75, 0.25]))) for n in wf['nodes']], 'edges': wf['edges']}
    if draw(st.booleans()):
        # the order in which the file lists its nodes (and its edges) carries no meaning
        wf = {'nodes': list(draw(st.permutations(wf['nodes']))), 'edges': list(draw(st.permutations(wf['edges'])))}
    name = draw(st.text(C14_NAME_ALPHABET, min_size=1, max_size=6))
    clock = draw(st.sampled_from([0, 1, 7, 10, 123]))
    return {'wf': wf, 'name': name, 'clock': clock, 'duration': draw(st.integers(1, 9)),
            'rate': draw(st.integers(1, 9))}


def build_plan(case, planner_cls=None):
    """Planner.run(...) of the shipped BatchPlanning on a workflow file written from the case"""
    import os
    import shutil
    import tempfile
    import simpy
    from topsim.core.buffer import Buffer
    from topsim.core.cluster import Cluster
    from topsim.core.instrument import Observation
    from topsim.core.planner import Planner
    from topsim.user.plan.batch_planning import BatchPlanning
    from .clusterops import StubConfig
    from .plans import batch_literal
    from .scenario import workflow_json
    d = tempfile.mkdtemp(prefix='vt14_')
    try:
        p = os.path.join(d, 'wf.json')
        with open(p, 'w') as f:
            json.dump(workflow_json(case['wf']), f)
        env = simpy.Environment(initial_time=case['clock'])
        cluster = Cluster(env, StubConfig([(10, 5), (20, 5)]))
        cfg = make_config('seconds', buffer={'hot': {'capacity': 1000, 'max_ingest_rate': 100},
                                             'cold': {'capacity': 1000, 'max_data_rate': 10}})
        model = BatchPlanning(batch_literal())
        planner = Planner(env, cluster, model, None)
        buffer = Buffer(env, cluster, planner, cfg)
        obs = Observation(case['name'], 0, case['duration'], 1, p, case['rate'])
        return planner.run(obs, buffer, 3)
    finally:
        shutil.rmtree(d, ignore_errors=True)


def build_plans(cases, layout):
    """several observations planned one after the other by ONE Planner / BatchPlanning instance (as in a simulation).
    layout: 'same_dir' - wf_<i>.json side by side; 'subdirs' - <i>/workflow.json (same file name, different directories);
    'shared' - observations with an identical graph share one file"""
    import os
    import shutil
    import tempfile
    import simpy
    from topsim.core.buffer import Buffer
    from topsim.core.cluster import Cluster
    from topsim.core.instrument import Observation
    from topsim.core.planner import Planner
    from topsim.user.plan.batch_planning import BatchPlanning
    from .clusterops import StubConfig
    from .plans import batch_literal
    from .scenario import workflow_json
    d = tempfile.mkdtemp(prefix='vt14_')
    try:
        env = simpy.Environment(initial_time=cases[0]['clock'])
        cluster = Cluster(env, StubConfig([(10, 5), (20, 5)]))
        cfg = make_config('seconds', buffer={'hot': {'capacity': 1000, 'max_ingest_rate': 100},
                                             'cold': {'capacity': 1000, 'max_data_rate': 10}})
        planner = Planner(env, cluster, BatchPlanning(batch_literal()), None)
        buffer = Buffer(env, cluster, planner, cfg)
        plans, written = [], {}
        for i, case in enumerate(cases):
            key = json.dumps(case['wf'], sort_keys=True)
            if layout == 'shared' and key in written:
                p = written[key]
            else:
                if layout == 'subdirs':
                    os.makedirs(os.path.join(d, str(i)))
                    p = os.path.join(d, str(i), 'workflow.json')
                else:
                    p = os.path.join(d, f'wf_{i}.json')
                with open(p, 'w') as f:
                    json.dump(workflow_json(case['wf']), f)
                written[key] = p
            obs = Observation(case['name'], 0, case['duration'], 1, p, case['rate'])
            plans.append(planner.run(obs, buffer, 3))
        return plans
    finally:
        shutil.rmtree(d, ignore_errors=True)


def check_plan(case, plan):
    out = []
    wf = case['wf']
    nodes = {n['id']: n for n in wf['nodes']}
    edges = {(u, v): x for u, v, x in wf['edges']}
    tasks = list(plan.tasks)
    if len(tasks) != len(nodes):
        out.append(O.V('C14', 'task_count', f"{len(tasks)} tasks for {len(nodes)} nodes"))
    ids = [t.id for t in tasks]
    if len(set(ids)) != len(ids):
        out.append(O.V('C14', 'duplicate_ids', f"task ids not unique: {ids}"))
    by_gid = {}
    for t in tasks:
        if t.graph_id in by_gid:
            out.append(O.V('C14', 'node_twice', f"node {t.graph_id} has two tasks"))
        by_gid[t.graph_id] = t
        if case['name'] not in str(t.id):
            out.append(O.V('C14', 'id_without_name', f"task id {t.id} does not carry the observation name {case['name']}"))
    if set(by_gid) != set(nodes):
        out.append(O.V('C14', 'node_set', f"tasks cover nodes {sorted(by_gid)} but the graph has {sorted(nodes)}"))
        return out
    tid = {g: t.id for g, t in by_gid.items()}
    for g, t in by_gid.items():
        n = nodes[g]
        if t.flops != n['comp']:
            out.append(O.V('C14', 'compute', f"node {g}: task flops {t.flops} != comp {n['comp']}"))
        if t.task_data != n.get('task_data', 0):
            out.append(O.V('C14', 'data', f"node {g}: task data {t.task_data} != {n.get('task_data', 0)}"))
        want_pred = sorted(tid[u] for (u, v) in edges if v == g)
        if sorted(t.pred) != want_pred:
            out.append(O.V('C14', 'pred_list', f"node {g}: predecessor list {sorted(t.pred)} != {want_pred}"))
        want_io = {tid[u]: x for (u, v), x in edges.items() if v == g}
        if dict(t.io) != want_io:
            out.append(O.V('C14', 'edge_volumes', f"node {g}: transfer volumes {t.io} != {want_io}"))
    gedges = {(a.graph_id, b.graph_id) for a, b in plan.graph.edges()}
    if gedges != set(edges) or plan.graph.number_of_nodes() != len(nodes):
        out.append(O.V('C14', 'graph_edges', f"plan graph edges {sorted(gedges)} != workflow edges {sorted(edges)}"))
    for (a, b, data) in plan.graph.edges(data=True):
        if data.get('transfer_data') != edges.get((a.graph_id, b.graph_id)):
            out.append(O.V('C14', 'graph_edge_volume', f"plan graph edge {a.graph_id}->{b.graph_id} carries {data}"))
    pos = {t.graph_id: i for i, t in enumerate(tasks)}
    for (u, v) in edges:
        if pos[u] > pos[v]:
            out.append(O.V('C14', 'not_topological', f"task list has {v} before its predecessor {u}"))
            break
    # predecessor / successor queries agree with the graph - every time they are asked (two rounds)
    for g, t in list(by_gid.items()) * 2:
        try:
            preds = {p.graph_id for p in plan.get_task_predecessors(t)}
            succs = {s.graph_id for s in plan.get_task_successors(t)}
        except Exception as e:       # a query that fails on a task of the plan is itself a disagreement with the graph
            out.append(O.V('C14', 'query_raised', f"node {g}: predecessor/successor query raised {type(e).__name__}: {e}"))
            continue
        want_p = {u for (u, v) in edges if v == g}
        want_s = {v for (u, v) in edges if u == g}
        if preds != want_p:
            out.append(O.V('C14', 'pred_query', f"node {g}: predecessor query {sorted(preds)} != {sorted(want_p)}"))
        if succs != want_s:
            out.append(O.V('C14', 'succ_query', f"node {g}: successor query {sorted(succs)} != {sorted(want_s)}"))
    return out


class C14:
    prop = 'C14'
    cases = {'quick': 3200, 'thorough': 60000}
    technique = "property-based testing: generated DAG JSON, plan compared structurally with the graph (round trip)"
    rule = ("generated workflow DAG files (1-14 nodes, permuted / gapped labels, any density, isolated nodes, with and without "
            "task_data), observation names containing '_' and digits, clocks; the plan returned by Planner.run with the shipped "
            "BatchPlanning is compared with the JSON graph; a third of the cases are histories of 2-4 observations planned by ONE planner "
            "instance (workflow files side by side, in sub-directories under the same file name, or shared), each plan compared with its own graph; "
            "plus simulations (BatchPlanning pairings, crowded plans with ingests ending together) in which the plan every observation carries when it is handed to the scheduler is compared with its own workflow; non-trivial = graph with >= 1 node of in-degree >= 2 and >= 1 node of "
            "out-degree >= 2; distinct = distinct canonical case JSON")
    level_text = ("exploration: bijection node<->task, unique ids carrying the observation name, compute/data demands, predecessor id "
                  "lists, per-edge volumes keyed by predecessor id, relabelled graph with exactly the mapped edges, topological task "
                  "order, and predecessor/successor queries that agree with the graph in both directions")
    assumptions = ["only the shipped BatchPlanning is the subject (SHADOWPlanning needs the `shadow` scheduling library, which is not importable on this image)"]

    def body(self, case, state):
        state.evaluations += 1
        try:
            if case.get('more'):
                # a history: further observations planned by the same planner instance; every plan must mirror ITS graph
                seq = [case] + case['more']
                plans = build_plans(seq, case.get('layout', 'same_dir'))
                plan = plans[0]
                state.count(f"history_layout={case.get('layout', 'same_dir')}")
            else:
                seq, plans = [case], None
                plan = build_plan(case)
        except Exception as e:
            from .trace import harness_frame_innermost, repo_frame
            if harness_frame_innermost(e):
                raise
            v = O.V('C14', 'planner_raised', f"{type(e).__name__}@{repo_frame(e)}: {e}")
            v['sig'] = v['part']
            return state.split_known([v])
        out = check_plan(case, plan)
        if plans:
            for i, (c, pl) in enumerate(zip(seq, plans)):
                if i:
                    for v in check_plan(c, pl):
                        v['msg'] = f"observation #{i + 1} of a planner history ({case.get('layout')}): " + v['msg']
                        out.append(v)
            ids = [t.id for pl in plans for t in pl.tasks]
            if len(ids) != len(set(ids)) and len({c['name'] for c in seq}) == len(seq):
                out.append(O.V('C14', 'duplicate_ids', f"task ids not unique across the observations of one planner: {sorted(ids)[:8]}"))
        indeg, outdeg = {}, {}
        for u, v, _ in case['wf']['edges']:
            outdeg[u] = outdeg.get(u, 0) + 1
            indeg[v] = indeg.get(v, 0) + 1
        n = len(case['wf']['nodes'])
        state.count(f"nodes={min(n, 10)}{'+' if n >= 10 else ''}")
        if not case['wf']['edges']:
            state.count('no_edges')
        if '_' in case['name']:
            state.count('name_with_underscore')
        if any(v >= 2 for v in indeg.values()) and any(v >= 2 for v in outdeg.values()):
            state.nontrivial.add(case_hash(case))
            state.sample({'case': case, 'task_ids': [t.id for t in plan.tasks][:6]})
        for v in out:
            v['sig'] = v['part']
        return state.split_known(out)

    # ---- simulation part: the plan an observation carries when it is handed to the scheduler mirrors its own workflow
    sim_cases = {'quick': 240, 'thorough': 2400}

    def sim_body(self, sc, state):
        from .runner import run_scenario
        state.evaluations += 1
        tr = run_scenario(sc)
        out = [dict(v) for v in O.online(tr, 'C14')]
        n = tr.counts.get('plans_checked_at_handover', 0)
        state.count('sim_runs')
        state.count('sim_plans_checked', n)
        stored = {}
        for name, r in tr.obs.items():
            if r.get('begin') is not None:
                stored.setdefault(int(r['begin']) + len(r['deposits']), []).append(name)
        if any(len(v) >= 2 for v in stored.values()):
            state.count('sim_runs_with_ingests_ending_together')
        if n >= 2:
            state.nontrivial.add(case_hash(sc))
        for v in out:
            v['sig'] = v['part']
        return state.split_known(out)

    def replay_case(self, case, state):
        if isinstance(case, dict) and 'machines' in case:
            return self.sim_body(case, state)
        return self.body(case, state)

    def run_shard(self, state, tier, seed, shard, nshards, cases=None):
        from .props_sim import SIZES, crowd, tight
        kw = dict(SIZES[tier])
        sims = mix((2, crowd(kw, algs=('batch', 'queue'))), (1, tight(kw, algs=('batch', 'queue'))),
                   (1, swarm(kw, algs=('batch', 'queue'))), (1, scenarios(algs=('batch', 'queue'), min_obs=2, twins=True, **kw)))
        run_given(state, sims, self.sim_body, max(1, (cases or self.sim_cases[tier]) // nshards),
                  shard_seed(seed, self.prop, shard, 'sim'))
        if state.failures:
            return
        total = cases or self.cases[tier]
        one = c14_cases(14 if tier == 'quick' else 20)

        def hist(t):
            first, more, layout = t
            names = {first['name']}
            keep = []
            for m in more:                       # observation names are unique within a plan
                if m['name'] not in names:
                    names.add(m['name'])
                    keep.append(m)
            return dict(first, more=keep, layout=layout) if keep else first
        histories = st.tuples(c14_cases(8), st.lists(c14_cases(8), min_size=1, max_size=3),
                              st.sampled_from(['same_dir', 'subdirs', 'subdirs', 'shared'])).map(hist)
        run_given(state, st.one_of(one, one, histories), self.body, max(1, total // nshards),
                  shard_seed(seed, self.prop, shard))


register(C14)


# ========================================================================================= C15

DEGREES = ['LOW', 'MID', 'HIGH', 'NONE']
DISTS = ['normal', 'poisson', 'uniform']


def delay_case_violations(case):
    from topsim.core.delay import DelayModel
    out = []
    deg = DelayModel.DelayDegree[case['degree']]

    def mk():
        return DelayModel(case['prob'], case['dist'], deg, seed=case['seed'])
    try:
        m1 = mk()
        r1 = m1.generate_delay(case['runtime'])
        r1b = m1.generate_delay(case['runtime'])
        r2 = mk().generate_delay(case['runtime'])
    except Exception as e:
        from .trace import harness_frame_innermost, repo_frame
        if harness_frame_innermost(e):
            raise
        return [O.V('C15', 'raised', f"{case}: generate_delay raised {type(e).__name__}@{repo_frame(e)}: {e}")], None
    rt = case['runtime']
    if r1 < rt:
        out.append(O.V('C15', 'shortened', f"{case}: returned {r1} < runtime {rt}"))
    if (case['degree'] == 'NONE' or case['prob'] == 0 or rt == 0) and r1 != rt:
        out.append(O.V('C15', 'delay_when_none', f"{case}: returned {r1} != runtime {rt} although degree none / prob 0 / runtime 0"))
    if r1 != r2:
        out.append(O.V('C15', 'not_reproducible', f"{case}: two fresh models returned {r1} and {r2}"))
    if r1 != r1b:
        out.append(O.V('C15', 'not_repeatable', f"{case}: two calls on one model returned {r1} and {r1b}"))
    if isinstance(r1, float) and r1 != int(r1):
        out.append(O.V('C15', 'fractional', f"{case}: returned a fractional number of timesteps {r1}"))
    return out, r1


class C15(SimSpec):
    prop = 'C15'
    cases = {'quick': 240, 'thorough': 6000}
    comp_cases = {'quick': 6000, 'thorough': 0}
    technique = "property-based testing + exhaustive grid over the delay model's arguments; simulations with injected delay vectors"
    rule = ("(a) DelayModel.generate_delay over {normal, poisson, uniform} x 4 degrees x probabilities x seeds x runtimes 0..200 "
            "(quick: Hypothesis sample incl. arbitrary float probabilities and seeds to 2^32; thorough: the full grid "
            "3 x 4 x {0,.1,.5,1} x seeds 0..49 x runtimes 0..200 = 482 400 cases, exhaustive); (a') per shard a batch of 24 questions answered in this process after a decoy model with another seed was asked the same question, and in a fresh interpreter without that history; (b) simulations with injected per-task "
            "delay vectors. Non-trivial component case = a delay was actually added (result > runtime); non-trivial simulation = a "
            "delayed task finished; distinct = distinct case / scenario JSON")
    level_text = ("exploration (grid part exhaustive in the thorough tier): no exception; result >= runtime; == runtime for degree none, "
                  "prob 0 or runtime 0; equal for equal seed and arguments (fresh models and repeated calls); in simulations every task "
                  "that received extra steps is flagged and the schedule status is DELAYED from the second row after its completion")

    def strategy(self, tier):
        kw = self.gen_kwargs(tier)

        def force(sc):
            if not sc['delays']:
                o = sc['obs'][0]
                sc = json.loads(json.dumps(sc))
                sc['delays'][f"{o['name']}:{o['wf']['nodes'][0]['id']}"] = 2
            return sc
        # 'ontime': static plans whose workflow est is stated on the simulation clock, several observations well apart, so
        # that a later workflow begins on time after an earlier workflow's delayed task has completed
        ontime = dict(kw, delays=True, abs_est=True, algs=('dynamic', 'greedy'), min_obs=2, start_gaps=(2, 5, 10, 10),
                      modes=('roomy',))

        def together(t):
            # two parallel root tasks on different machines that finish in the SAME step because the first-listed one is
            # delayed by exactly the difference of their runtimes; generous slack, so nothing else is late
            r, d, tail, speed, alg, slack = t
            wf = {'nodes': [{'id': 0, 'comp': r * speed}, {'id': 1, 'comp': (r + d) * speed}, {'id': 2, 'comp': tail * speed}],
                  'edges': [[0, 2, 0], [1, 2, 0]]}
            return {'machines': [{'flops': speed, 'bw': 5}] * 3, 'arrays': 8, 'max_ingest': 1,
                    'obs': [{'name': 'p', 'start': 0, 'duration': 2, 'demand': 4, 'rate': 1, 'ingest': 1, 'wf': wf,
                             'plan': {'0': 0, '1': 1, '2': 2}}],
                    'hot': {'capacity': 100, 'rate': 5}, 'cold': {'capacity': 100, 'rate': 5}, 'unit': 'seconds',
                    'alg': {'kind': alg}, 'mode': 'roomy', 'delays': {'p:0': d}, 'delay_model': None, 'abs_est': slack}
        simultaneous = st.tuples(st.integers(1, 6), st.integers(1, 4), st.integers(1, 5), st.sampled_from([1, 5, 10]),
                                 st.sampled_from(['dynamic', 'greedy']), st.sampled_from([20, 50])).map(together)
        return mix((4, scenarios(delays=True, **kw)), (2, scenarios(**ontime)), (2, swarm(kw, delays=True)), (1, simultaneous)).map(force)

    def violations(self, tr):
        return O.C15_sim(tr)

    def nontrivial(self, tr):
        return bool(tr.counts.get('delayed_tasks_finished'))

    def comp_body(self, case, state):
        state.evaluations += 1
        out, r = delay_case_violations(case)
        state.count(f"dist={case['dist']}")
        state.count(f"degree={case['degree']}")
        if r is not None and r > case['runtime']:
            state.count('delay_added')
            state.nontrivial.add(case_hash(case))
            state.sample({'case': case, 'returned': r})
        for v in out:
            v['sig'] = v['part']
        return state.split_known(out)

    def body(self, case, state):
        if 'xproc' in case:
            return self.xproc_body(case, state)
        if 'dist' in case:
            return self.comp_body(case, state)
        return super().body(case, state)

    def replay_case(self, case, state):
        return self.body(case, state)

    # ---- "identical for identical seed and arguments", also across processes with different query histories
    XPROC_CHILD = ("import sys, json\n"
                   "from topsim.core.delay import DelayModel\n"
                   "out = []\n"
                   "for c in json.load(sys.stdin):\n"
                   "    m = DelayModel(c['prob'], c['dist'], DelayModel.DelayDegree[c['degree']], seed=c['seed'])\n"
                   "    out.append(float(m.generate_delay(c['runtime'])))\n"
                   "print(json.dumps(out))\n")

    def xproc_body(self, case, state):
        """case = {'xproc': [delay cases with pairwise different runtimes]}: in THIS process every case's arguments are first
        queried with a decoy model of another seed, then with the case's seed; a fresh interpreter answers the same questions
        without any such history; the answers must be equal"""
        import subprocess
        import sys
        from topsim.core.delay import DelayModel
        state.evaluations += 1
        here = []
        for c in case['xproc']:
            deg = DelayModel.DelayDegree[c['degree']]
            DelayModel(c['prob'], c['dist'], deg, seed=c['seed'] + 1).generate_delay(c['runtime'])      # decoy, other seed
            here.append(float(DelayModel(c['prob'], c['dist'], deg, seed=c['seed']).generate_delay(c['runtime'])))
        r = subprocess.run([sys.executable, '-c', self.XPROC_CHILD], input=json.dumps(case['xproc']), capture_output=True, text=True)
        if r.returncode != 0:
            raise HarnessError('C15 cross-process child failed: ' + r.stderr[-400:])
        there = json.loads(r.stdout.strip().splitlines()[-1])
        out = []
        for c, a, b in zip(case['xproc'], here, there):
            if a != b:
                out.append(O.V('C15', 'depends_on_process_history', f"{c}: {a} in a process where a model with seed {c['seed'] + 1} was asked the same "
                               f"question before, {b} in a fresh interpreter"))
                break
        state.count('cross_process_cases', len(here))
        if any(a > c['runtime'] for c, a in zip(case['xproc'], here)):
            state.nontrivial.add(case_hash(case))
        for v in out:
            v['sig'] = v['part']
        return state.split_known(out)

    def run_shard(self, state, tier, seed, shard, nshards, cases=None):
        import random
        rnd = random.Random(shard_seed(seed, self.prop, shard, 'xproc'))      # derived from VERIF_SEED only
        for _ in range(1 if tier == 'quick' else 6):
            rts = rnd.sample(range(20, 200), 24)
            batch = {'xproc': [{'dist': rnd.choice(DISTS), 'degree': rnd.choice(['LOW', 'MID', 'HIGH']), 'prob': rnd.choice([1.0, 1.0, 0.5]),
                                'seed': rnd.randrange(0, 1000), 'runtime': rt} for rt in rts]}
            bad = self.xproc_body(batch, state)
            if bad:
                state.failures.append((batch, bad))
                return
        if tier == 'quick':
            strat = st.fixed_dictionaries({
                'dist': st.sampled_from(DISTS), 'degree': st.sampled_from(DEGREES),
                'prob': st.one_of(st.sampled_from([0, 0.0, 0.1, 0.5, 1, 1.0]), st.floats(0, 1)),
                'seed': st.one_of(st.integers(0, 60), st.integers(0, 2 ** 32 - 1)),
                'runtime': st.one_of(st.integers(0, 5), st.integers(0, 200))})
            run_given(state, strat, self.comp_body, max(1, (cases or self.comp_cases[tier]) // nshards),
                      shard_seed(seed, self.prop, shard, 'comp'))
        else:
            grid = itertools.product(DISTS, DEGREES, [0, 0.1, 0.5, 1], range(50), range(201))
            n = 0
            for i, (d, g, p, s, r) in enumerate(grid):
                if i % nshards != shard:
                    continue
                n += 1
                case = {'dist': d, 'degree': g, 'prob': p, 'seed': s, 'runtime': r}
                bad = self.comp_body(case, state)
                if bad:
                    state.failures.append((case, bad))
                    if len(state.failures) > 10:
                        break
            state.extra['grid_cases'] = n
            state.extra['exhaustive_part'] = "DelayModel grid 3 dists x 4 degrees x 4 probs x 50 seeds x 201 runtimes"
        if state.failures:
            return
        total = cases or self.cases[tier]
        run_given(state, self.strategy(tier), self.body, max(1, total // nshards), shard_seed(seed, self.prop, shard, 'sim'))


register(C15)


# ========================================================================================= C16

def physical_config(f, vals):
    """a configuration in SECONDS whose times are whole multiples of f"""
    inst = {'telescope': {
        'total_arrays': vals['arrays'], 'max_ingest_resources': vals['max_ingest'],
        'pipelines': {o['name']: {'workflow': 'wf.json', 'ingest_demand': o['ingest']} for o in vals['obs']},
        # the optional per-observation keys the parser reads (workflow resource limits: counts, never rescaled) are present in
        # some entries
        'observations': [dict({'name': o['name'], 'start': o['a'] * f, 'duration': o['b'] * f,
                               'instrument_demand': o['demand'], 'data_product_rate': o['rate']},
                              **{k: v for k, v in (('min_workflow_resources', o.get('minres')), ('max_workflow_resources', o.get('maxres')))
                                 if v is not None}) for o in vals['obs']]}}
    cluster = {'header': {}, 'system': {'resources': {f"m{i}": {'flops': c, 'compute_bandwidth': b}
                                                        for i, (c, b) in enumerate(vals['machines'])},
                                        'system_bandwidth': vals['sysbw']}}
    buffer = {'hot': {'capacity': vals['hot_cap'], 'max_ingest_rate': vals['hot_rate']},
              'cold': {'capacity': vals['cold_cap'], 'max_data_rate': vals['cold_rate']}}
    return inst, cluster, buffer


def parse_all(unit, inst, cluster, buffer, twice=False):
    cfg = make_config(unit, cluster=json.loads(json.dumps(cluster)), buffer=json.loads(json.dumps(buffer)),
                      instrument=json.loads(json.dumps(inst)))
    if twice:
        # parsing is a query: asking the same Config object again must give the same answer (the first answers are dropped)
        cfg.parse_cluster_config()
        cfg.parse_instrument_config('telescope')
        cfg.parse_buffer_config()
    machines, sysbw = cfg.parse_cluster_config()
    arrays, pipelines, obs, max_ingest = cfg.parse_instrument_config('telescope')
    hot, cold = cfg.parse_buffer_config()
    return {
        'machines': [(m.id, m.cpu, m.bandwidth) for m in machines], 'sysbw': sysbw,
        'arrays': arrays, 'max_ingest': max_ingest,
        'pipelines': {k: v['ingest_demand'] for k, v in pipelines.items()},
        'obs': [(o.name, o.est, o.duration, o.demand, o.ingest_data_rate) for o in obs],
        'hot': (hot[0].total_capacity, hot[0].max_ingest_data_rate),
        'cold': (cold[0].total_capacity, cold[0].max_data_rate)}


def c16_violations(unit, vals):
    from .scenario import unit_factor
    canonical = isinstance(unit, int) or unit in ('seconds', 'minutes', 'hours')
    # other spellings ('Minutes', ' hours', 'days', ...): whatever factor the simulator gives them, it must be the same in all
    # three sections - the factor is read off the instrument section and the other two are held to it
    f = unit_factor(unit) if canonical else 3600
    inst, cluster, buffer = physical_config(f, vals)
    out = []
    try:
        S = parse_all('seconds', inst, cluster, buffer)
        U = parse_all(unit, inst, cluster, buffer)
        U2 = parse_all(unit, inst, cluster, buffer, twice=True)
    except Exception as e:
        from .trace import harness_frame_innermost, repo_frame
        if harness_frame_innermost(e):
            raise
        return [O.V('C16', 'parse_raised', f"unit {unit!r}: {type(e).__name__}@{repo_frame(e)}: {e}")]
    if not canonical:
        f = U['obs'][0][4] / S['obs'][0][4]
        f = int(f) if f == int(f) else f

    def bad(part, msg):
        out.append(O.V('C16', part, f"unit {unit!r} (factor {f}): {msg}"))
    if U2 != U:
        diff = [k for k in U if U[k] != U2[k]]
        bad('second_parse_differs', f"parsing the same Config object a second time changes {diff}: {[(U[k], U2[k]) for k in diff][:2]}")
    for (n1, st1, d1, dem1, r1), (n2, st2, d2, dem2, r2) in zip(S['obs'], U['obs']):
        if st2 * f != st1:
            bad('start', f"{n1}: start {st2} x {f} != {st1}")
        if d2 * f != d1:
            bad('duration', f"{n1}: duration {d2} x {f} != {d1}")
        if r2 != r1 * f:
            bad('obs_rate', f"{n1}: rate {r2} != {r1} x {f}")
        if dem1 != dem2:
            bad('demand', f"{n1}: instrument demand changed {dem1} -> {dem2}")
        if r2 * d2 != r1 * d1:
            bad('volume', f"{n1}: data volume {r2 * d2} != {r1 * d1}")
        if (r2 > U['hot'][1]) != (r1 > S['hot'][1]):
            bad('rate_limit_comparison', f"{n1}: rate {r2} vs limit {U['hot'][1]} compares differently from {r1} vs {S['hot'][1]}")
    for (i1, c1, b1), (i2, c2, b2) in zip(S['machines'], U['machines']):
        if c2 != c1 * f:
            bad('speed', f"{i1}: cpu {c2} != {c1} x {f}")
        if b2 != b1 * f:
            bad('bandwidth', f"{i1}: bandwidth {b2} != {b1} x {f}")
        comp = vals['k'] * c1 * f
        if (comp // c2) * f != comp // c1:
            bad('runtime_seconds', f"{i1}: runtime of {comp} is {(comp // c2) * f}s vs {comp // c1}s")
    if U['sysbw'] != S['sysbw'] * f:
        bad('system_bandwidth', f"{U['sysbw']} != {S['sysbw']} x {f}")
    if U['hot'][1] != S['hot'][1] * f:
        bad('hot_rate', f"{U['hot'][1]} != {S['hot'][1]} x {f}")
    if U['cold'][1] != S['cold'][1] * f:
        bad('cold_rate', f"{U['cold'][1]} != {S['cold'][1]} x {f}")
    for k in ('arrays', 'max_ingest', 'pipelines'):
        if U[k] != S[k]:
            bad('count_scaled', f"{k} changed {S[k]} -> {U[k]}")
    if U['hot'][0] != S['hot'][0] or U['cold'][0] != S['cold'][0]:
        bad('capacity_scaled', f"capacities changed {S['hot'][0]},{S['cold'][0]} -> {U['hot'][0]},{U['cold'][0]}")
    if isinstance(unit, str) and unit != 'seconds':
        try:
            N = parse_all(f, inst, cluster, buffer)
            if N != U:
                bad('spelling', f"{unit!r} parses differently from the custom factor {f}")
        except Exception as e:
            bad('spelling', f"custom factor {f} raised {type(e).__name__}")
    return out


@st.composite
def c16_vals(draw):
    nobs = draw(st.integers(1, 3))
    return {
        'arrays': draw(st.integers(1, 64)), 'max_ingest': draw(st.integers(1, 8)),
        'obs': [{'name': f"o{i}", 'a': draw(st.integers(0, 50)), 'b': draw(st.integers(1, 20)),
                 'demand': draw(st.integers(1, 64)), 'rate': draw(st.integers(1, 40)),
                 'ingest': draw(st.integers(1, 8)), 'minres': draw(st.sampled_from([None, None, 1, 2])),
                 'maxres': draw(st.sampled_from([None, None, 2, 5]))} for i in range(nobs)],
        'machines': [(draw(st.integers(1, 100)), draw(st.integers(1, 50))) for _ in range(draw(st.integers(1, 3)))],
        'sysbw': draw(st.integers(1, 10)),
        'hot_cap': draw(st.integers(1, 10 ** 6)), 'hot_rate': draw(st.integers(1, 60)),
        'cold_cap': draw(st.integers(1, 10 ** 6)), 'cold_rate': draw(st.integers(1, 60)),
        'k': draw(st.integers(0, 9))}


FIXED_VALS = [
    {'arrays': 36, 'max_ingest': 5, 'obs': [{'name': 'emu', 'a': 0, 'b': 10, 'demand': 36, 'rate': 4, 'ingest': 5},
                                            {'name': 'dingo', 'a': 10, 'b': 15, 'demand': 18, 'rate': 3, 'ingest': 2}],
     'machines': [(84, 10), (84, 10), (50, 7)], 'sysbw': 1, 'hot_cap': 500, 'hot_rate': 5, 'cold_cap': 250, 'cold_rate': 2, 'k': 3},
    {'arrays': 1, 'max_ingest': 1, 'obs': [{'name': 'a', 'a': 7, 'b': 1, 'demand': 1, 'rate': 40, 'ingest': 1}],
     'machines': [(1, 1)], 'sysbw': 3, 'hot_cap': 41, 'hot_rate': 39, 'cold_cap': 40, 'cold_rate': 60, 'k': 0},
]


class C16:
    prop = 'C16'
    cases = {'quick': 4000, 'thorough': 8000}
    technique = "metamorphic property-based testing of Config.parse_* (same physical configuration, different unit) + exhaustive unit sweep"
    rule = ("(a) simulation pairs: the same physical scenario (homogeneous machines, compute = whole number of steps) is run with unit 'seconds' "
            "and with a coarser unit; every task's runtime x factor must equal its runtime in seconds and machines must end the run with the "
            "scaled speed; (b) a physical configuration in seconds whose start/duration values are whole multiples of the unit factor is parsed with unit "
            "'seconds' and with unit u in {'seconds','minutes','hours', ints}; quick: Hypothesis draws configuration and unit; thorough "
            "additionally enumerates ALL units {'seconds','minutes','hours'} + 1..7200 on two fixed configurations; non-trivial = unit "
            "factor > 1; distinct = distinct (unit, configuration) JSON")
    level_text = ("exploration (unit sweep exhaustive in thorough): starts/durations x f and rates/limits/speeds/bandwidths / f equal the "
                  "seconds parse in all three sections; 'minutes' == 60, 'hours' == 3600; volumes, rate-limit comparisons and floor(comp/speed)*f "
                  "runtimes unit-independent; capacities, counts and demands unscaled")
    assumptions = ["Config objects are built without a file (Config.__new__ + attributes); Config.__init__'s file reading is covered by the repository's own tests"]

    def body(self, case, state):
        unit, vals = case
        from .scenario import unit_factor
        state.evaluations += 1
        out = c16_violations(unit, vals)
        if isinstance(unit, str) and unit not in ('seconds', 'minutes', 'hours'):
            f = 2
            state.count('unit_other_spelling')
        else:
            f = unit_factor(unit)
        state.count('unit_string' if isinstance(unit, str) else 'unit_int')
        if f > 1:
            state.nontrivial.add(case_hash([str(unit), vals]))
            state.sample({'unit': unit, 'config': vals})
        for v in out:
            v['sig'] = v['part']
        return state.split_known(out)

    # ---- simulation part: "task runtimes measured in seconds do not depend on the unit"
    sim_cases = {'quick': 160, 'thorough': 1600}

    @staticmethod
    def sim_strategy():
        def mk(t):
            sc, u, ks, order, lim, slow = t
            sc = json.loads(json.dumps(sc))
            f, b = sc['machines'][0]['flops'], sc['machines'][0]['bw']
            if slow:
                # a machine delivering less than one flop / byte per second (whole numbers of steps in both units all the same)
                f, b = slow
            sc['machines'] = [{'flops': f, 'bw': b} for _ in sc['machines']]          # homogeneous: runtime independent of placement
            uf = {'minutes': 60}.get(u, u)
            i = 0
            for o in sc['obs']:
                o.pop('rate_frac', None)          # whole-number rates only: C16 is about values that are whole multiples of the unit
                o['start'] *= uf
                o['duration'] *= uf
                for n in o['wf']['nodes']:
                    n['comp'] = ks[i % len(ks)] * f * uf                               # whole number of steps in either unit
                    n.pop('task_data', None)
                    i += 1
                for j, e in enumerate(o['wf']['edges']):
                    # transfer times of whole seconds (0, 1, 3 or 5): a whole number of steps with 'seconds', possibly a fraction of a
                    # step with the coarser unit - the successor then starts between two step boundaries
                    e[2] = (0, 0, 1, 3, 5)[(ks[(i + j) % len(ks)] + j) % 5] * b
            vols = sum(o['rate'] * o['duration'] for o in sc['obs'])
            # the hot tier's ingest-rate limit: exactly the fastest observation's rate (accepted), above it, or 1 / 0.5 below
            # it (that observation's stream must be refused - with every unit alike)
            sc['hot'] = {'capacity': int(vols / 0.6) + 2, 'rate': max(0.5, max(o['rate'] for o in sc['obs']) + lim)}
            sc['cold'] = {'capacity': max(o['rate'] * o['duration'] for o in sc['obs']), 'rate': 1}
            sc['mode'] = 'roomy'
            sc['delays'] = {}
            dl = {}
            for j, o in enumerate(sc['obs']):
                for n in o['wf']['nodes']:
                    if (ks[(j + n['id']) % len(ks)] + n['id']) % 4 == 0:
                        dl[f"{o['name']}:{n['id']}"] = 1 + (ks[0] + n['id']) % 2
            return {'sim': True, 'sc': sc, 'unit': u, 'order': order, 'delay_steps': dl}
        base = scenarios(algs=('batch', 'queue'), modes=('roomy',), max_machines=4, max_obs=2, max_nodes=4, max_duration=3,
                         start_gaps=(0, 1, 2))
        # small custom factors keep the seconds-unit run short; the unit *spellings* are covered by the parse-level part
        return st.tuples(base, st.sampled_from([2, 3, 5, 7]), st.lists(st.integers(1, 3), min_size=1, max_size=6),
                         st.sampled_from(['seq', 'built_first', 'built_first_rev']),
                         st.sampled_from([0, 0, 0, 3, -1, -0.5, 100000]),
                         st.sampled_from([None, None, None, (0.5, 1), (0.25, 0.5), (0.5, 0.25)])).map(mk)

    def sim_body(self, case, state):
        from .runner import run_pair
        state.evaluations += 1
        sc, u = case['sc'], case['unit']
        uf = {'minutes': 60}.get(u, u)
        # both simulations live in one interpreter; they may both be built before either runs, in either order
        # injected task delays are physical too: k x factor steps with 'seconds' are k steps with the coarser unit
        dl = case.get('delay_steps') or {}
        a, b = run_pair(dict(sc, unit='seconds', delays={k: v * uf for k, v in dl.items()}),
                        dict(sc, unit=u, delays=dict(dl)), case.get('order', 'seq'))
        state.count(f"order={case.get('order', 'seq')}")
        out = []
        if a.status != 'completed' or b.status != 'completed':
            # "rate-limit comparisons do not depend on the unit": refused with one unit <=> refused with the other
            oa = (a.status, getattr(a, 'exc_sig', None))
            ob = (b.status, getattr(b, 'exc_sig', None))
            if oa != ob and 'budget' not in (a.status, b.status):
                out.append(O.V('C16', 'outcome_depends_on_unit', f"unit 'seconds': {oa}, unit {u!r}: {ob} (hot limit {sc['hot']['rate']}/s, rates {[o['rate'] for o in sc['obs']]})"))
                for v in out:
                    v['sig'] = v['part']
                return state.split_known(out)
            if a.status == 'raised' and oa == ob:
                state.count('sim_pairs_refused_alike')
                state.nontrivial.add(case_hash(case))
                return []
            state.aborted += 1
            return []

        def runtimes(tr):
            return {w['task'].split('_', 1)[0] + ':' + w['task'].rsplit('_', 1)[1] + (':i' if '_ingest_' in w['task'] else ''):
                    w['aft'] - w['ast'] for w in tr.works if 'aft' in w}
        ra, rb = runtimes(a), runtimes(b)
        for k in ra:
            if k in rb and abs(rb[k] * uf - ra[k]) > 1e-6:
                out.append(O.V('C16', 'runtime_depends_on_unit', f"task {k}: {ra[k]} s with unit seconds, {rb[k]} steps x {uf} = {rb[k] * uf} s with unit {u!r}"))
                break
        # "per-observation data volumes do not depend on the unit": what each observation actually deposited
        for name, ra_ in a.obs.items():
            va = sum(x for _, x in ra_['deposits'])
            vb = sum(x for _, x in b.obs[name]['deposits']) if name in b.obs else None
            if vb is not None and abs(va - vb) > 1e-9:
                out.append(O.V('C16', 'volume_depends_on_unit', f"observation {name} deposited {va} with unit seconds and {vb} with unit {u!r}"))
                break
        # the limits the live Buffer actors apply (not only what the parser returned) are scaled by the factor as well
        for tier, attr in (('hot', 'max_ingest_data_rate'), ('cold', 'max_data_rate')):
            la = getattr(getattr(a.sim.buffer, tier)[0], attr)
            lb = getattr(getattr(b.sim.buffer, tier)[0], attr)
            if abs(lb - la * uf) > 1e-9:
                out.append(O.V('C16', 'live_rate_limit', f"unit {u!r}: the {tier} buffer applies a limit of {lb} per step, {la} per second x {uf} = {la * uf} expected"))
                break
        for i, m in enumerate(b.sim.cluster.machines):
            if m.cpu != sc['machines'][i]['flops'] * uf or m.bandwidth != sc['machines'][i]['bw'] * uf:
                out.append(O.V('C16', 'speed_after_run', f"unit {u!r}: machine {m.id} ends the run with cpu={m.cpu} bandwidth={m.bandwidth}, expected {sc['machines'][i]['flops'] * uf}/{sc['machines'][i]['bw'] * uf}"))
                break
        state.count('sim_pairs')
        if len(ra) >= 3:
            state.nontrivial.add(case_hash(case))
        for v in out:
            v['sig'] = v['part']
        return state.split_known(out)

    def replay_case(self, case, state):
        if isinstance(case, dict) and case.get('sim'):
            return self.sim_body(case, state)
        return self.body(case, state)

    def run_shard(self, state, tier, seed, shard, nshards, cases=None):
        run_given(state, self.sim_strategy(), self.sim_body, max(1, (cases or self.sim_cases[tier]) // nshards),
                  shard_seed(seed, self.prop, shard, 'sim'))
        if state.failures:
            return
        units = st.one_of(st.sampled_from(['seconds', 'minutes', 'hours']), st.integers(1, 7200),
                          st.sampled_from([1, 2, 59, 60, 61, 3599, 3600, 3601]),
                          st.sampled_from(['Minutes', 'HOURS', ' minutes', 'hours ', 'Seconds', 'days', 'min', 'hour']))
        run_given(state, st.tuples(units, c16_vals()).map(list), self.body,
                  max(1, (cases or self.cases[tier]) // nshards), shard_seed(seed, self.prop, shard))
        if state.failures or tier != 'thorough':
            return
        all_units = ['seconds', 'minutes', 'hours'] + list(range(1, 7201))
        n = 0
        for i, (u, vals) in enumerate(itertools.product(all_units, FIXED_VALS)):
            if i % nshards != shard:
                continue
            n += 1
            bad = self.body([u, vals], state)
            if bad:
                state.failures.append(([u, vals], bad))
                break
        state.extra['unit_sweep_cases'] = n
        state.extra['exhaustive_part'] = "all units {'seconds','minutes','hours'} + 1..7200 on 2 fixed configurations"


register(C16)


# ========================================================================================= C18

def TierObs(name, size):
    """a real Observation that has been fully ingested: rate x duration == stored size (a whole number of steps)"""
    from topsim.core.instrument import Observation, RunStatus
    rate = next(r for r in (5, 3, 2, 1) if size % r == 0)
    o = Observation(name, 0, size // rate, 1, None, rate)
    o.total_data_size = size
    o.status = RunStatus.FINISHED
    o.ast = 0
    return o


class TierModel:
    """op histories on a real Buffer: ['store', size] ['deposit', size] ['schedule'] ['finish'] ['h2c'] ['c2h'] ['step', k].
    Several moves may be in flight at once (the second and later ones are only requested when the destination certainly has
    room for everything in flight plus the newcomer, or certainly lacks room)."""

    def __init__(self, hot_cap, cold_cap, hot_rate, cold_rate):
        import simpy
        from topsim.core.buffer import Buffer
        self.env = simpy.Environment()
        cfg = make_config('seconds', buffer={'hot': {'capacity': hot_cap, 'max_ingest_rate': hot_rate},
                                             'cold': {'capacity': cold_cap, 'max_data_rate': cold_rate}})
        self.buf = Buffer(self.env, None, None, cfg)
        self.hot, self.cold = self.buf.hot[0], self.buf.cold[0]
        self.rate = min(hot_rate, cold_rate)
        self.total = hot_cap + cold_cap        # hot free + cold free + data stored == constant
        self.data = 0
        self.where = {}                        # obs name -> 'hot' | 'cold' | 'scheduled'
        self.objs = {}
        self.moves = []                        # moves in flight (process still alive)
        self.k = 0
        self.classes = {}
        self.ops = []
        self.dead = False
        self.last = (self.hot.current_capacity, self.cold.current_capacity)

    def count(self, k):
        self.classes[k] = self.classes.get(k, 0) + 1

    def _settle(self):
        while self.env.peek() == self.env.now:
            self.env.step()

    def names(self, tier):
        return [o.name for o in tier.observations['stored']]

    def state(self):
        return (self.hot.current_capacity, self.cold.current_capacity, self.names(self.hot), self.names(self.cold),
                getattr(self.hot.observations['transfer'], 'name', None), getattr(self.cold.observations['transfer'], 'name', None))

    def in_flight(self):
        return [mv for mv in self.moves if not mv['data_done']]

    def describe(self):
        return ", ".join(f"{mv['dir']} of {mv['name']} ({mv['left']}/{mv['size']} left)" for mv in self.moves) or "no move"

    def observe(self, out, op, advanced=False):
        h, c = self.hot.current_capacity, self.cold.current_capacity
        if h + c + self.data != self.total:
            out.append(O.V('C18', 'not_conserved', f"after {op}: hot free {h} + cold free {c} + stored data {self.data} != {self.total}"))
        if h < 0 or c < 0 or h > self.hot.total_capacity or c > self.cold.total_capacity:
            out.append(O.V('C18', 'free_out_of_range', f"after {op}: hot free {h}, cold free {c}"))
        dh, dc = h - self.last[0], c - self.last[1]
        due = [mv for mv in self.moves if mv['due'] and mv['left'] > 0]
        exp = 0
        for mv in due:
            mv['want'] = min(self.rate, mv['left'])
            exp += mv['want'] if mv['dir'] == 'h2c' else -mv['want']
        if self.moves:
            if dh != -dc:
                out.append(O.V('C18', 'step_not_conserved', f"after {op}: {self.describe()}: hot free changed by {dh}, cold free by {dc}"))
                self.dead = True
            elif dh != exp:
                if due and dh == 0 and advanced:
                    out.append(O.V('C18', 'stalled', f"after {op}: {self.describe()} moved nothing"))
                else:
                    out.append(O.V('C18', 'wrong_rate', f"after {op}: {self.describe()}: hot free changed by {dh} in one step, expected {exp} "
                                   f"(each move in flight transfers min(hot rate, cold rate, remaining) = min({self.rate}, left))"))
                self.dead = True
            else:
                for mv in due:
                    mv['left'] -= mv['want']
                    mv['steps'] += 1
        for mv in self.moves:
            mv['due'] = False
        for mv in list(self.moves):
            if mv['left'] == 0 and not mv['data_done'] and not self.dead:
                mv['data_done'] = True
                want_steps = math.ceil(mv['size'] / self.rate)
                if mv['steps'] != want_steps:
                    out.append(O.V('C18', 'wrong_duration', f"{mv['dir']} of {mv['name']} ({mv['size']} units at rate {self.rate}) took {mv['steps']} transfer steps, expected {want_steps}"))
                dst, src = (self.cold, self.hot) if mv['dir'] == 'h2c' else (self.hot, self.cold)
                self.where[mv['name']] = 'cold' if mv['dir'] == 'h2c' else 'hot'
                if mv['name'] not in self.names(dst) or mv['name'] in self.names(src):
                    out.append(O.V('C18', 'wrong_tier', f"after {mv['dir']} {mv['name']} is stored in hot {self.names(self.hot)} / cold {self.names(self.cold)}"))
                if not self.in_flight() and (self.hot.observations['transfer'] is not None or self.cold.observations['transfer'] is not None):
                    out.append(O.V('C18', 'transfer_slot', f"transfer slots not cleared after the move: hot {self.hot.observations['transfer']} cold {self.cold.observations['transfer']}"))
            if not mv['proc'].is_alive:
                if mv['left'] != 0 and not self.dead:
                    out.append(O.V('C18', 'ended_early', f"{mv['dir']} of {mv['name']} ended with {mv['left']} not transferred"))
                self.moves.remove(mv)
                self.count('move_completed')
        self.check_where(out, op)
        self.last = (h, c)

    def check_where(self, out, op):
        flying = {mv['name'] for mv in self.in_flight()}
        hot_n, cold_n = self.names(self.hot), self.names(self.cold)
        for name, tier in self.where.items():
            if name in flying:
                continue
            in_hot, in_cold = hot_n.count(name), cold_n.count(name)
            if tier == 'scheduled':
                if in_hot or in_cold:
                    out.append(O.V('C18', 'stored_lists', f"after {op}: {name} is being processed but is listed as stored: hot {hot_n} cold {cold_n}"))
                continue
            if (in_hot, in_cold) != ((1, 0) if tier == 'hot' else (0, 1)):
                out.append(O.V('C18', 'stored_lists', f"after {op}: {name} should be stored in {tier} only: hot {hot_n} cold {cold_n}"))

    def _stream_in(self, size):
        left = size
        while left > 0:      # stream it in at no more than the hot tier's ingest rate
            chunk = min(left, self.hot.max_ingest_data_rate)
            self.hot.process_incoming_data_stream(chunk, self.env.now)
            left -= chunk
        self.data += size
        if self.moves:
            self.last = (self.last[0] - size, self.last[1])

    def apply(self, op):
        out = []
        self.ops.append(op)
        kind = op[0]
        try:
            # data still arriving in the hot tier from moves in flight: with several moves in flight the tier's single transfer slot
            # (what has_capacity_for looks at) only knows one of them, so the harness keeps its own reserve
            arriving = sum(mv['left'] for mv in self.moves if mv['dir'] == 'c2h')
            if kind == 'store':
                size = op[1]
                if self.hot.has_capacity_for(size) and self.hot.current_capacity - arriving - size >= 0:
                    self.k += 1
                    o = TierObs(f"o{self.k}", size)
                    self._stream_in(size)
                    self.hot.observations['stored'].append(o)
                    self.where[o.name] = 'hot'
                    self.objs[o.name] = o
                    self.count('stored')
            elif kind == 'deposit':
                # data of an observation that is still ingesting: on the hot tier, not yet in any list
                size = op[1]
                if self.hot.has_capacity_for(size) and self.hot.current_capacity - arriving - size >= 0:
                    self._stream_in(size)
                    self.count('deposited_unlisted')
            elif kind == 'schedule':
                # the scheduler takes the newest stored observation for processing (it stays on the hot tier)
                if self.hot.observations['stored'] and not any(mv['dir'] == 'h2c' for mv in self.in_flight()):
                    o = self.hot.next_observation_for_processing()
                    if o is not None:
                        self.where[o.name] = 'scheduled'
                        self.count('scheduled')
            elif kind == 'finish':
                sched = list(self.hot.observations['scheduled'])
                if sched:
                    o = sched[0]
                    ok = self.hot.remove(o)
                    if ok:
                        self.data -= o.total_data_size
                        self.where.pop(o.name, None)
                        self.count('finished')
                        if self.moves:
                            self.last = (self.last[0] + o.total_data_size, self.last[1])
            elif kind in ('h2c', 'c2h'):
                src, dst = (self.hot, self.cold) if kind == 'h2c' else (self.cold, self.hot)
                flying = self.in_flight()
                if src.observations['stored'] and len(flying) < 3:
                    o = src.observations['stored'][-1]
                    size = o.total_data_size
                    inbound = sum(mv['left'] for mv in flying if (mv['dir'] == kind))      # still to arrive in dst
                    biggest = max([mv['size'] for mv in flying] or [0])
                    certainly_room = dst.current_capacity - inbound - biggest >= size
                    certainly_none = dst.current_capacity < size
                    if flying and not (certainly_room or certainly_none):
                        # another move is in flight and whether the newcomer fits depends on how the data still arriving is
                        # counted: the code documents concurrent transfers as unsupported ("TODO Support multiple observation
                        # transfers"), so such requests are not issued
                        self.count('concurrent_request_not_issued_ambiguous_room')
                    else:
                        before = self.state()
                        room = dst.current_capacity >= size
                        gen = self.buf.move_hot_to_cold(0) if kind == 'h2c' else self.buf.move_cold_to_hot(0)
                        proc = self.env.process(gen)
                        self._settle()
                        if not proc.is_alive and proc.value is False:
                            self.count('move_refused')
                            if flying:
                                self.count('refused_request_during_move')
                                if any(mv['dir'] != kind for mv in flying):
                                    self.count('refused_request_opposite_direction')
                            after = self.state()
                            if after != before:
                                out.append(O.V('C18', 'refusal_changed_state', f"refused {kind} of {o.name} ({self.describe()}): {before} -> {after}"))
                            if not flying and (self.hot.observations['transfer'] is not None or self.cold.observations['transfer'] is not None):
                                out.append(O.V('C18', 'refusal_changed_state', f"refused {kind} of {o.name}: transfer slots {self.hot.observations['transfer']}/{self.cold.observations['transfer']}"))
                            if room and not flying:
                                out.append(O.V('C18', 'refused_with_room', f"{kind} of {o.name} ({size}) refused although the destination has {dst.current_capacity} free"))
                            if certainly_room and flying:
                                self.count('concurrent_request_refused_despite_room')
                        else:
                            if not room:
                                out.append(O.V('C18', 'accepted_without_room', f"{kind} of {o.name} ({size}) started although the destination has only {before[1] if kind == 'h2c' else before[0]} free ({self.describe()})"))
                                self.dead = True
                            self.moves.append({'dir': kind, 'name': o.name, 'size': size, 'left': size, 'steps': 0, 'proc': proc,
                                               'data_done': False, 'due': True})
                            self.count('move_started_' + kind)
                            if flying:
                                self.count('concurrent_move_started')
                                if any(mv['dir'] != kind for mv in flying):
                                    self.count('concurrent_opposite_directions')
                            if size % self.rate:
                                self.count('size_not_multiple_of_rate')
            elif kind == 'step':
                for _ in range(op[1]):
                    self._settle()
                    for mv in self.moves:
                        mv['due'] = True
                    self.env.run(until=self.env.now + 1)
                    self._settle()
                    self.observe(out, op, advanced=True)
                    if out or self.dead:
                        break
                return out
            self.observe(out, op)
        except Exception as e:
            from .trace import harness_frame_innermost, repo_frame
            if harness_frame_innermost(e):
                raise
            out.append(O.V('C18', 'raised', f"{op}: {type(e).__name__}@{repo_frame(e)}: {e}"))
            self.dead = True
        return out


def tier_history_strategy():
    op = st.one_of(st.tuples(st.just('store'), st.integers(1, 40)), st.just(('h2c',)), st.just(('c2h',)),
                   st.tuples(st.just('deposit'), st.integers(1, 12)), st.just(('schedule',)), st.just(('finish',)),
                   st.tuples(st.just('step'), st.integers(1, 6)), st.tuples(st.just('step'), st.integers(1, 6))).map(list)
    # rates: whole numbers and dyadic fractions (exact in binary, so every comparison below stays exact); buffer rates are not
    # rounded by the parser and the repository's own configurations use fractional ones
    rate = st.one_of(st.integers(1, 12), st.integers(1, 12), st.sampled_from([0.5, 1.5, 2.5, 0.25, 3.75]))
    free = st.tuples(st.integers(5, 100), st.integers(5, 100), rate, rate,
                     st.lists(op, min_size=2, max_size=30)).map(list)

    def busy(t):
        # two stored observations; the newer one is moved to a cold tier that cannot also take the older one, and the older
        # one's move is requested while the first is in flight (and again afterwards)
        s1, s2, slack, hr, cr, k, tail = t
        cold_cap = s2 + min(slack, s1)
        return [s1 + s2 + 5, cold_cap, hr, cr,
                [['store', s1], ['store', s2], ['h2c'], ['step', k], ['h2c'], ['step', 1], ['h2c']] + tail]
    directed = st.tuples(st.integers(2, 30), st.integers(2, 40), st.integers(0, 30), rate, rate,
                         st.integers(1, 4), st.lists(op, max_size=8)).map(busy)

    def overlap(t):
        # roomy tiers; one observation is taken to cold, another stored in hot, then both moves (opposite directions) - or two
        # moves in the same direction - are in flight during common steps
        s1, s2, s3, hr, cr, k, shape, tail = t
        r = min(hr, cr)
        cap = 4 * (s1 + s2 + s3) + 10
        ops = [['store', s1], ['h2c'], ['step', math.ceil(s1 / r) + 1], ['store', s2]]
        if shape == 0:
            ops += [['c2h'], ['step', k], ['h2c']]
        elif shape == 1:
            ops += [['h2c'], ['step', k], ['c2h']]
        elif shape == 2:
            ops += [['h2c'], ['c2h']]
        else:
            ops += [['store', s3], ['h2c'], ['step', k], ['h2c']]
        return [cap, cap, hr, cr, ops + [['step', 2]] + tail]
    overlapping = st.tuples(st.integers(2, 30), st.integers(2, 30), st.integers(2, 30), rate, rate,
                            st.integers(1, 3), st.integers(0, 3), st.lists(op, max_size=8)).map(overlap)

    def exact(t):
        # the hot tier is filled to the last unit; the newest observation is taken to a cold tier that has exactly (or a little more
        # than) room for it and is brought back with nothing else changed: both legs are exact fits
        s1, s2, spare, hr, cr, tail = t
        r = min(hr, cr)
        return [s1 + s2, s2 + spare, hr, cr,
                [['store', s1], ['store', s2], ['h2c'], ['step', math.ceil(s2 / r) + 1], ['c2h'], ['step', math.ceil(s2 / r) + 1]] + tail]
    exactfit = st.tuples(st.integers(1, 30), st.integers(1, 30), st.sampled_from([0, 0, 1]), rate, rate, st.lists(op, max_size=6)).map(exact)
    return st.one_of(free, free, free, directed, overlapping, exactfit)


def run_tier_history(case):
    import contextlib
    import io
    hc, cc, hr, cr, ops = case
    m = TierModel(hc, cc, hr, cr)
    out = []
    with contextlib.redirect_stdout(io.StringIO()):
        for op in ops:
            if m.dead or out:
                break
            out += m.apply(op)
        # let a move in flight finish so that its end state is judged
        guard = 0
        while m.moves and not m.dead and not out and guard < 200:
            out += m.apply(['step', 1])
            guard += 1
    return m, out


class C18:
    prop = 'C18'
    cases = {'quick': 4000, 'thorough': 60000}
    technique = "model-based property testing: generated tier-operation histories on a real Buffer + exhaustive grid of single moves and round trips"
    rule = ("histories [store size | deposit unlisted data | schedule | finish | move hot->cold | move cold->hot | step k] on a real Buffer with generated capacities and both rate "
            "orderings, mostly one move at a time, plus moves overlapping in time (only requested when the destination has room for everything in flight and the newcomer) and requests that must be refused (destination free space < size) issued while a move is in flight, in either direction; thorough additionally enumerates the grid sizes 1..24 x hot rate 1..6 x cold rate 1..6 x "
            "{hot->cold, round trip} x {room, no room}; non-trivial = history with a started move where hot rate < cold rate or the size is "
            "not a multiple of the rate, or with a refused move; distinct = distinct canonical history JSON")
    level_text = ("exploration (single-move grid exhaustive in thorough): after every step hot free + cold free + stored data is constant and "
                  "what leaves one tier enters the other; each step moves exactly min(hot rate, cold rate, remaining); the move takes "
                  "ceil(size/min rate) transfer steps; afterwards the observation is stored in exactly the destination, both transfer slots "
                  "are empty; a move without room returns False and changes nothing - free space, stored lists and both transfer slots, also when "
                  "another move is in flight, which goes on exactly as before")
    assumptions = ["observations are placed in the hot tier with the same two statements Buffer.ingest_data_stream uses "
                   "(process_incoming_data_stream + append to 'stored'); Buffer.run's tiering *policy* is not exercised here (see KF1)"]

    def body(self, case, state):
        state.evaluations += 1
        m, out = run_tier_history(case)
        for k, v in m.classes.items():
            state.count(k, v)
        hr, cr = case[2], case[3]
        started = m.classes.get('move_started_h2c', 0) + m.classes.get('move_started_c2h', 0)
        if hr < cr and started:
            state.count('moves_with_hot_slower')
        if (started and (hr < cr or m.classes.get('size_not_multiple_of_rate'))) or m.classes.get('move_refused') \
                or m.classes.get('refused_request_during_move'):
            state.nontrivial.add(case_hash(case))
            state.sample({'hot_cap': case[0], 'cold_cap': case[1], 'hot_rate': hr, 'cold_rate': cr, 'ops': m.ops[:20],
                          'end': {'hot_free': m.hot.current_capacity, 'cold_free': m.cold.current_capacity,
                                  'hot_stored': m.names(m.hot), 'cold_stored': m.names(m.cold)}})
        for v in out:
            v['sig'] = v['part']
        return state.split_known(out)

    def replay_case(self, case, state):
        return self.body(case, state)

    def run_shard(self, state, tier, seed, shard, nshards, cases=None):
        run_given(state, tier_history_strategy(), self.body, max(1, (cases or self.cases[tier]) // nshards),
                  shard_seed(seed, self.prop, shard))
        if state.failures:
            return
        sizes = range(1, 25) if tier == 'thorough' else (1, 2, 5, 6, 7, 12)
        rates = range(1, 7) if tier == 'thorough' else (1, 2, 5)
        n = 0
        for i, (size, hr, cr, shape, room) in enumerate(itertools.product(sizes, rates, rates, ('h2c', 'round'), (True, False))):
            if i % nshards != shard:
                continue
            n += 1
            hot_cap = size + 3
            cold_cap = size + 2 if room else max(1, size - 1)
            ops = [['store', size], ['h2c'], ['step', size + 2]]
            if shape == 'round':
                ops += [['c2h'], ['step', size + 2]]
            case = [hot_cap, cold_cap, hr, cr, ops]
            bad = self.body(case, state)
            if bad:
                state.failures.append((case, bad))
                break
        state.extra['grid_cases'] = n
        if tier == 'thorough':
            state.extra['exhaustive_part'] = "sizes 1..24 x hot rate 1..6 x cold rate 1..6 x {hot->cold, round trip} x {room, no room}"


register(C18)


# ========================================================================================= C19 (adds cluster histories)

class C19(SIM_SPECS['C19'].__class__):
    hist_cases = {'quick': 800, 'thorough': 20000}
    rule = SIM_SPECS['C19'].__class__.rule + ("; plus buffer tier-operation histories (the C18 generator: store / move hot->cold / move cold->hot / "
                                              "step, overlapping moves) after every operation of which Buffer.is_empty() is compared with the two tiers' "
                                              "free space - the only way to have data in the cold tier without entering the known-broken tiering policy")
    technique = "property-based testing: idle/empty/finished queries against the shadow model along simulations, cluster operation histories and buffer tier-operation histories"

    def hist_body(self, case, state):
        n, max_ingest, ops = case
        m, viol = legal_history(n, max_ingest, ops)
        state.evaluations += 1
        state.count('ops:idle_truth_True', m.classes.get('idle_truth_True', 0))
        state.count('ops:idle_truth_False', m.classes.get('idle_truth_False', 0))
        viol = [v for v in viol if v['prop'] == 'C19']
        for v in viol:
            v['sig'] = v['part']
        if m.classes.get('idle_truth_True') and m.classes.get('idle_truth_False') and m.classes.get('ingest_started'):
            state.nontrivial.add(case_hash(['hist', n, max_ingest, m.ops]))
        return state.split_known(viol)

    # ---- Buffer.is_empty along tier-operation histories (data resting in, or moving to / from, the cold tier)
    tier_cases = {'quick': 1600, 'thorough': 20000}

    def tier_body(self, case, state):
        import contextlib
        import io
        hc, cc, hr, cr, ops = case['tier']
        state.evaluations += 1
        m = TierModel(hc, cc, hr, cr)
        out = []
        seen = set()
        with contextlib.redirect_stdout(io.StringIO()):
            for op in list(ops) + [['step', 3]]:
                if m.dead:
                    break
                if m.apply(op):            # a C18 matter, judged there; the state is no longer trustworthy here
                    break
                said = bool(m.buf.is_empty())
                truth = (m.hot.current_capacity == m.hot.total_capacity and m.cold.current_capacity == m.cold.total_capacity)
                cold_only = m.hot.current_capacity == m.hot.total_capacity and m.cold.current_capacity != m.cold.total_capacity
                seen.add((truth, cold_only))
                state.count(f"tier:empty_truth_{truth}")
                if cold_only:
                    state.count('tier:data_in_cold_tier_only')
                if said and not truth:
                    out.append(O.V('C19', 'buffer_query', f"after {op}: Buffer.is_empty() is True but hot free {m.hot.current_capacity}/{m.hot.total_capacity}, "
                                   f"cold free {m.cold.current_capacity}/{m.cold.total_capacity}"))
                    break
        if (True, False) in seen and (False, True) in seen:
            state.nontrivial.add(case_hash(case))
        for v in out:
            v['sig'] = v['part']
        return state.split_known(out)

    def body(self, case, state):
        if isinstance(case, dict) and 'tier' in case:
            return self.tier_body(case, state)
        if isinstance(case, list):
            return self.hist_body(case, state)
        return super().body(case, state)

    def replay_case(self, case, state):
        return self.body(case, state)

    def run_shard(self, state, tier, seed, shard, nshards, cases=None):
        run_given(state, history_strategy(), self.hist_body, max(1, (cases or self.hist_cases[tier]) // nshards),
                  shard_seed(seed, self.prop, shard, 'hist'))
        if state.failures:
            return
        run_given(state, tier_history_strategy().map(lambda c: {'tier': c}), self.tier_body,
                  max(1, (cases or self.tier_cases[tier]) // nshards), shard_seed(seed, self.prop, shard, 'tier'))
        if state.failures:
            return
        total = cases or self.cases[tier]
        run_given(state, self.strategy(tier), self.body, max(1, total // nshards), shard_seed(seed, self.prop, shard, 'sim'))


register(C19)
