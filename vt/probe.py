"""Generator tuning aid:  python -m vt.probe <Cxx> <n> <seed> "<scenarios kwargs as python dict>"
counts how many generated cases make the property's oracle fire (run with TOPSIM_REPO=<mutant copy>)."""
import collections
import sys

from hypothesis import HealthCheck, given, seed, settings

from .props_sim import SPECS
from . import props_comp  # noqa
from .scenario import scenarios


def main():
    prop, n, sd = sys.argv[1], int(sys.argv[2]), int(sys.argv[3])
    kw = eval(sys.argv[4]) if len(sys.argv) > 4 else {}
    spec = SPECS.get(prop) or props_comp.SPECS[prop]
    hits = collections.Counter()
    tot = [0]

    @seed(sd)
    @settings(max_examples=n, database=None, deadline=None, suppress_health_check=list(HealthCheck))
    @given(scenarios(**kw))
    def t(sc):
        tr = spec.run(sc)
        tot[0] += 1
        vs = spec.violations(tr)
        if vs:
            hits[(vs[0]['part'])] += 1
    t()
    print(tot[0], dict(hits))


main()
