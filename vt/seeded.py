"""python -m vt.seeded [--only SUBSTR] [--tier quick]: run the registered checks against every seeded change in
/verif/seeded/*/ (scratch copy of /repo's topsim with patch.diff applied; generated search only, corpus replay off) and
record the outcome in seeded/RESULTS.json."""
import argparse
import glob
import json
import os
import shutil
import subprocess
import tempfile
import time

VERIF = os.path.dirname(os.path.dirname(os.path.abspath(__file__)))


def main():
    ap = argparse.ArgumentParser()
    ap.add_argument('--only', default='')
    ap.add_argument('--tier', default='quick')
    ap.add_argument('--seed', type=int, default=1)
    a = ap.parse_args()
    outp = os.path.join(VERIF, 'seeded', 'RESULTS.json')
    results = json.load(open(outp))['results'] if os.path.exists(outp) else {}
    for d in sorted(glob.glob(os.path.join(VERIF, 'seeded', '*', ''))):
        name = os.path.basename(os.path.dirname(d))
        if a.only and a.only not in name:
            continue
        meta = json.load(open(os.path.join(d, 'meta.json')))
        scratch = tempfile.mkdtemp(prefix='vt_seeded_')
        try:
            shutil.copytree('/repo/topsim', os.path.join(scratch, 'topsim'), ignore=shutil.ignore_patterns('__pycache__'))
            r = subprocess.run(['patch', '-p1', '-s', '-i', os.path.join(d, 'patch.diff')], cwd=scratch, capture_output=True, text=True)
            if r.returncode:
                results[name] = {'error': 'patch does not apply: ' + r.stdout[-200:]}
                print(name, 'PATCH FAILED')
                continue
            rec = {}
            for p in meta['checks_expected']:
                t0 = time.time()
                env = dict(os.environ, TOPSIM_REPO=scratch, VT_OUT=os.path.join(scratch, 'out'), VERIF_SEED=str(a.seed))
                r = subprocess.run([os.path.join(VERIF, 'check'), p, '--tier', a.tier, '--no-corpus'], cwd=VERIF,
                                   capture_output=True, text=True, env=env)
                first = next((l.strip()[:200] for l in r.stdout.splitlines() if l.strip().startswith(p + '/')), '')
                rec[p] = {'exit': r.returncode, 'first_violation': first, 'wall_s': round(time.time() - t0, 1),
                          'tier': a.tier, 'seed': a.seed}
                print(f"{name:55s} {p} exit={r.returncode} {first[:100]}", flush=True)
            results[name] = rec
        finally:
            shutil.rmtree(scratch, ignore_errors=True)
        json.dump({'results': results}, open(outp, 'w'), indent=1)


if __name__ == '__main__':
    main()
