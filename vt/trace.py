"""Tracing SimPy environment, pass-through wrappers around topsim's API boundaries, and the shadow
model that is maintained from the recorded boundary events only.

The wrappers never replace behaviour: generators are driven slice by slice through the original
generator, plain methods call the original and record around it.  They are installed once by
patching the classes imported from /repo's working tree, so whatever code is in /repo runs."""
import math
import traceback

import simpy

from topsim.core.buffer import Buffer, HotBuffer
from topsim.core.cluster import Cluster
from topsim.core.planner import Planner
from topsim.core.scheduler import Scheduler
from topsim.core.task import Task
from topsim.user.telescope import Telescope

EPS = 1e-9


class StepBudgetExceeded(Exception):
    pass


CURRENT = None          # the Trace of the simulation being run (one at a time per process)


def istep(t):
    return int(math.floor(t + EPS))


class TraceEnv(simpy.Environment):
    """simpy.Environment that calls observers after every processed event and at every end of a
    timestep, and enforces the step budget from inside step() (so the real Simulation.start() loop
    is what runs)."""

    def __init__(self, budget=None):
        super().__init__()
        self.seq = 0
        self.budget = budget
        self.trace = None

    def step(self):
        nxt = self.peek()
        tr = self.trace
        if tr is not None and self.seq > 0 and nxt != simpy.core.Infinity and istep(nxt) > istep(self.now):
            tr.end_of_step(istep(self.now))
        if self.budget is not None and nxt != simpy.core.Infinity and nxt > self.budget:
            raise StepBudgetExceeded(f"clock {nxt} > budget {self.budget}")
        super().step()
        self.seq += 1
        if tr is not None:
            tr.after_event()


# ----------------------------------------------------------------------------- generator driver

def drive(gen, on_first_yield=None, on_return=None, on_raise=None, before_slice=None, after_slice=None):
    """Run generator `gen` to completion as a generator itself, forwarding everything
    (send / throw), and calling the callbacks at its boundaries."""
    first = True
    sent = None
    exc = None
    while True:
        if before_slice:
            before_slice()
        try:
            if exc is not None:
                ev = gen.throw(exc)
            elif first:
                ev = next(gen)
            else:
                ev = gen.send(sent)
        except StopIteration as s:
            if after_slice:
                after_slice()
            if on_return:
                on_return(s.value, first)
            return s.value
        except BaseException as e:
            if after_slice:
                after_slice()
            if on_raise:
                on_raise(e, first)
            raise
        if after_slice:
            after_slice()
        if first and on_first_yield:
            on_first_yield()
        first = False
        exc = None
        try:
            sent = yield ev
        except BaseException as e:       # thrown into us (e.g. simpy.Interrupt): forward it
            exc = e


def repo_frame(exc):
    """innermost frame of the traceback that lies in topsim's source tree"""
    fr = None
    seen = set()
    e = exc
    chain = []
    while e is not None and id(e) not in seen:
        seen.add(id(e))
        chain.append(e)
        e = e.__cause__ or e.__context__
    for e in chain:          # outermost first; deeper causes overwrite
        for f in traceback.extract_tb(e.__traceback__):
            if '/topsim/' in f.filename and '/vt/' not in f.filename:
                fr = f
    if fr is None:
        return None
    return f"{fr.filename.split('/topsim/')[-1]}:{fr.name}"


def harness_frame_innermost(exc):
    e = exc
    seen = set()
    while (e.__cause__ or e.__context__) is not None and id(e) not in seen:
        seen.add(id(e))
        e = e.__cause__ or e.__context__
    tb = traceback.extract_tb(e.__traceback__)
    return bool(tb) and '/vt/' in tb[-1].filename and '/topsim/' not in tb[-1].filename


# ----------------------------------------------------------------------------- the trace

class Trace:
    def __init__(self, sc, sim, env, extra=None):
        self.sc = sc
        self.sim = sim
        self.env = env
        env.trace = self
        self.violations = []          # dicts: prop, part, msg, t
        self.counts = {}              # class counters (non-triviality, generator health)
        cl = sim.cluster
        self.mids = [m.id for m in cl.machines]
        self.m = {mid: {'alloc': None, 'work': [], 'promised': None, 'res': None} for mid in self.mids}
        self.res_live = {}            # reservation name -> set of machine ids (shadow)
        self.completed = 0            # completed allocations
        self.pending_ingest = 0       # machines promised by a begun observation, provisioning not yet run
        self.allocs = []              # records of allocate_task_to_cluster activations
        self.works = []               # records of do_work activations
        self.algo_runs = []
        self.plans = {}               # obs name -> recorded plan
        self.plan_objs = {}
        self.obs = {}                 # obs name -> shadow record
        self.cluster_only = getattr(sim, 'buffer', None) is None
        for o in ([] if self.cluster_only else sim.instrument.observations):
            self.obs[o.name] = {'begin': None, 'finish': None, 'status_seq': [str(o.status.value)],
                                'deposits': [], 'freed': None, 'freed_at': None, 'queued_at': None,
                                'alloc_started_at': None, 'dequeued_at': None, 'resident': False,
                                'begin_snap': None, 'obj': o, 'mark_calls': []}
        self.arrays_in_use = 0
        self.queue = []               # shadow scheduler queue (obs names)
        self.tiering_entered = False
        self.tier_moves = 0
        self.rate_rejected = []
        self.capacity_checks = []     # (t, obs, result, shadow free machines, shadow hot free)
        self.snaps = {}               # step t -> snapshot at the *beginning* of step t
        self.queries = {}             # step t -> idle queries at the end of step t-1
        self.deposit_ctx = None
        self.status = None
        self.exc = None
        self.final_now = None
        self.df = None
        self.tasks_df = None
        self.events_df = None
        self.max_alive = {}
        self.parts = sc['alg'].get('parts') if sc['alg']['kind'] == 'batch' else None
        self.hot_cap = None if self.cluster_only else sim.buffer.hot[0].total_capacity
        self.cold_cap = None if self.cluster_only else sim.buffer.cold[0].total_capacity
        self.extra = extra or {}
        self.provision_calls = []
        self.task_obs = {}
        self.reservation_sizes = []
        self.pending_alloc = None
        self.check_every_event = None
        self.pending_release_check = None
        self.last_release = {}

    # ---------------------------------------------------------------- helpers
    def V(self, prop, part, msg, **kw):
        if len(self.violations) < 200:
            v = {'prop': prop, 'part': part, 'msg': msg, 't': self.env.now, 'tier_moves': self.tier_moves}
            v.update(kw)
            self.violations.append(v)

    def count(self, key, n=1):
        self.counts[key] = self.counts.get(key, 0) + n

    def shadow_free_machines(self):
        return [mid for mid, s in self.m.items()
                if s['alloc'] is None and s['promised'] is None and s['res'] is None]

    def hot_used_expected(self):
        return sum(sum(a for _, a in r['deposits']) for r in self.obs.values() if r['resident'])

    def pools(self):
        r = self.sim.cluster._clusters['default']['resources']
        return r

    # ---------------------------------------------------------------- callbacks from wrappers
    def provision_ingest_first_slice(self, obs_name, demand, before_avail, before_ingest):
        r = self.pools()
        moved = [m.id for m in r['ingest'] if m.id not in before_ingest]
        self.pending_ingest -= demand
        for mid in moved:
            s = self.m[mid]
            if s['alloc'] is not None or s['promised'] is not None:
                self.V('C01', 'ingest_on_busy', f"ingest of {obs_name} given busy machine {mid} ({s})")
            if s['res'] is not None:
                self.V('C09', 'ingest_on_reserved', f"ingest of {obs_name} given machine {mid} reserved for {s['res']}")
            s['promised'] = obs_name

    def alloc_begin(self, rec):
        s = self.m[rec['machine']]
        task, mid, obs, ingest = rec['task'], rec['machine'], rec['obs'], rec['ingest']
        if s['alloc'] is not None:
            self.V('C01', 'two_allocations', f"{task} allocated on {mid} while {s['alloc']['task']} holds it")
        if ingest:
            # the machine must be free, or set aside for this very observation's ingest
            if s['promised'] is not None and s['promised'] != obs:
                self.V('C01', 'ingest_on_foreign_promise', f"ingest task {task} on {mid} which was set aside for ingest of {s['promised']}")
            if s['res'] is not None:
                self.V('C09', 'ingest_on_reserved', f"ingest task {task} on {mid} reserved for {s['res']}")
            s['promised'] = None
        else:
            if s['promised'] is not None:
                self.V('C01', 'task_on_ingest_machine', f"{task} allocated on {mid} promised to ingest of {s['promised']}")
            if s['res'] is not None and s['res'] != obs:
                self.V('C01', 'foreign_reserved', f"{task} ({obs}) executed on {mid} reserved for {s['res']}")
                self.V('C09', 'foreign_reserved', f"{task} ({obs}) executed on {mid} reserved for {s['res']}")
            if self.parts is not None and s['res'] != obs:
                self.V('C09', 'outside_reservation', f"{task} ({obs}) allocated on {mid} whose reservation is {s['res']}")
        rec['res_at_begin'] = s['res']
        self.task_obs[task] = obs
        s['alloc'] = rec
        n_busy = sum(1 for x in self.m.values() if x['alloc'] is not None)
        self.max_alive['allocs'] = max(self.max_alive.get('allocs', 0), n_busy)

    def alloc_end(self, rec):
        s = self.m[rec['machine']]
        if s['alloc'] is rec:
            s['alloc'] = None
        self.completed += 1
        # a machine that ran a task for an observation with a live reservation joins / returns to it
        if not rec['ingest'] and rec['obs'] in self.res_live and s['res'] is None:
            s['res'] = rec['obs']
            self.res_live[rec['obs']].add(rec['machine'])
            self.count('machine_joined_reservation')

    def work_begin(self, rec):
        s = self.m[rec['machine']]
        if s['work']:
            self.V('C01', 'two_bodies', f"do_work of {rec['task']} entered on {rec['machine']} while {s['work']} active")
        a = s['alloc']
        if a is None or a['task'] != rec['task']:
            # ingest: machine.run() starts do_work inside the first slice of the allocation, i.e.
            # before alloc_begin is recorded; recognise that by the pending record
            pend = self.pending_alloc
            if not (pend is not None and pend['task'] == rec['task'] and pend['machine'] == rec['machine']):
                self.V('C01', 'work_outside_allocation', f"do_work of {rec['task']} on {rec['machine']} outside its allocation (holder {a and a['task']})")
        s['work'].append(rec['task'])

    def work_end(self, rec):
        s = self.m[rec['machine']]
        if rec['task'] in s['work']:
            s['work'].remove(rec['task'])

    def reservation_change(self, name, before_idle, kind, size=None):
        r = self.pools()
        after = {k: [m.id for m in v] for k, v in r['idle'].items()}
        if kind == 'provision':
            new = [mid for mid in after.get(name, []) if mid not in before_idle.get(name, [])]
            for mid in new:
                s = self.m[mid]
                if s['alloc'] is not None or s['promised'] is not None:
                    self.V('C09', 'reserved_busy', f"reservation {name} took busy machine {mid}")
                    self.V('C02', 'reserved_busy', f"reservation {name} took busy machine {mid}")
                if s['res'] is not None and s['res'] != name:
                    self.V('C09', 'reserved_twice', f"reservation {name} took {mid} already reserved for {s['res']}")
                s['res'] = name
            if name in after:
                self.res_live.setdefault(name, set()).update(new)
            self.count('reservations_made')
            self.reservation_sizes.append((name, len(new), self.env.now))
            alive = len(self.res_live)
            self.max_alive['res'] = max(self.max_alive.get('res', 0), alive)
        else:
            if name in before_idle and name not in after:
                # "the whole reservation returns to the free pool when the workflow's LAST TASK HAS FINISHED": no task body
                # of that observation may still be executing anywhere
                busy = [(mid, t) for mid, s in self.m.items() for t in s['work'] if self.task_obs.get(t) == name]
                if busy and self.parts is not None:
                    self.V('C09', 'released_while_task_running', f"reservation of {name} released at {self.env.now} while its task(s) {busy} are still executing")
                self.last_release[name] = {mid for mid, s in self.m.items() if s['res'] == name}
                for mid, s in self.m.items():
                    if s['res'] == name:
                        s['res'] = None
                self.res_live.pop(name, None)
                self.count('reservations_released')

    # ---------------------------------------------------------------- observers
    def after_event(self):
        want_ing = self.check_pools()
        if self.cluster_only:
            return
        sim = self.sim
        r = self.pools()
        self.check_rest(sim, r, want_ing)

    def check_pools(self):
        r = self.pools()
        # --- C02 partition
        seen = [m.id for m in r['available']] + [m.id for m in r['ingest']] + [m.id for m in r['occupied']]
        for name, lst in r['idle'].items():
            seen += [m.id for m in lst]
        if sorted(seen) != sorted(self.mids):
            self.V('C02', 'partition', f"pools do not partition the machines: avail={r['available']} ingest={r['ingest']} occ={r['occupied']} idle={r['idle']}")
        want_ing = sorted(mid for mid, s in self.m.items()
                          if s['promised'] is not None or (s['alloc'] is not None and s['alloc']['ingest']))
        if sorted(m.id for m in r['ingest']) != want_ing:
            self.V('C02', 'ingest_pool', f"ingest pool {r['ingest']} but machines with promised/active ingest are {want_ing}")
        want_occ = sorted(mid for mid, s in self.m.items() if s['alloc'] is not None and not s['alloc']['ingest'])
        if sorted(m.id for m in r['occupied']) != want_occ:
            self.V('C02', 'occupied_pool', f"occupied pool {r['occupied']} but machines with an active task allocation are {want_occ}")
        if set(r['idle'].keys()) != set(self.res_live.keys()):
            self.V('C02', 'reservation_keys', f"reservations {list(r['idle'].keys())} vs shadow {list(self.res_live.keys())}")
        for name, lst in r['idle'].items():
            for m in lst:
                if self.m[m.id]['res'] != name:
                    self.V('C09', 'reservation_set_changed', f"{m.id} sits in reservation {name} but was reserved for {self.m[m.id]['res']}")
        if self.parts is not None and len(self.res_live) > self.parts:
            self.V('C09', 'too_many_reservations', f"{len(self.res_live)} reservations live > partitions {self.parts}")
        return want_ing

    def check_rest(self, sim, r, want_ing):
        # --- C07 ledger
        hot = sim.buffer.hot[0]
        cold = sim.buffer.cold[0]
        if hot.current_capacity < 0:
            res_ = [r_ for r_ in self.obs.values() if r_['resident']]
            joint = len(res_) >= 2 and all(r_['begin_snap']['hot_free_impl'] >= r_['begin_snap']['volume'] for r_ in res_)
            self.V('C07', 'hot_negative', f"hot free space {hot.current_capacity} < 0 with "
                   f"{[(n, sum(a for _, a in r_['deposits'])) for n, r_ in self.obs.items() if r_['resident']]} resident",
                   joint=joint)
        if hot.current_capacity > hot.total_capacity:
            self.V('C07', 'hot_overfull', f"hot free space {hot.current_capacity} > capacity {hot.total_capacity}")
        if cold.current_capacity < 0 or cold.current_capacity > cold.total_capacity:
            self.V('C07', 'cold_range', f"cold free space {cold.current_capacity} outside [0, {cold.total_capacity}]")
        if not self.tier_moves:
            used = hot.total_capacity - hot.current_capacity
            exp = self.hot_used_expected()
            if abs(used - exp) > EPS:
                self.V('C07', 'used_ne_resident', f"hot used {used} != data of resident observations {exp}")
            if abs(cold.current_capacity - cold.total_capacity) > EPS:
                self.V('C07', 'cold_used_without_move', f"cold free {cold.current_capacity} != capacity without any tier move")
        # --- C08 telescope / ingest limits, status sequence
        tel = sim.instrument
        if tel.telescope_use != self.arrays_in_use:
            self.V('C08', 'array_count', f"telescope reports {tel.telescope_use} arrays in use, shadow {self.arrays_in_use}")
        if self.arrays_in_use > tel.total_arrays or self.arrays_in_use < 0:
            self.V('C08', 'arrays_exceeded', f"{self.arrays_in_use} arrays in use of {tel.total_arrays}")
        n_ing = len(want_ing)
        if n_ing > tel.max_ingest:
            self.V('C08', 'ingest_limit', f"{n_ing} machines on ingest > limit {tel.max_ingest}")
        for name, rec in self.obs.items():
            st_ = str(rec['obj'].status.value)
            if st_ != rec['status_seq'][-1]:
                rec['status_seq'].append(st_)
        if self.pending_release_check is not None:
            name = self.pending_release_check
            self.pending_release_check = None
            msgs = []
            if name in r['idle'] or name in self.res_live:
                msgs.append(f"{name}: workflow dequeued at {self.env.now} but its reservation is still held ({r['idle'].get(name)})")
            av = {m.id for m in r['available']}
            for mid in self.last_release.get(name, ()):
                if mid not in av:
                    msgs.append(f"{name}: machine {mid} of its released reservation is not back in the free pool")
            self.obs[name]['release_check'] = msgs
        if self.check_every_event:
            self.check_every_event(self)

    def snapshot(self):
        n_alloc = sum(1 for s in self.m.values() if s['alloc'] is not None)
        n_ing = sum(1 for s in self.m.values() if s['alloc'] is not None and s['alloc']['ingest'])
        stored = 0
        for name, rec in self.obs.items():
            if rec.get('ingest_done') and rec['queued_at'] is None:
                stored += 1
        return {
            'available_resources': len(self.mids) - n_alloc,
            'ingest_resources': n_ing,
            'running_tasks': n_alloc,
            'finished_tasks': self.completed,
            'provisioned_observations': len(self.res_live),
            'hot_buffer': self.hot_cap - self.hot_used_expected(),
            'cold_buffer': self.cold_cap,
            'stored': stored,
            'observations_waiting': sum(1 for r in self.obs.values() if r['begin'] is None),
            'observations_finished': sum(1 for r in self.obs.values() if r['finish'] is not None),
            'scheduler_observation_queue': len(self.queue),
        }

    def final_queries(self):
        """the queries are also judged in the state in which start()/resume() returned"""
        if self.cluster_only or self.status != 'completed':
            return
        self.query_now()

    def query_now(self):
        """judge the idle/empty/finished queries in the current (settled) state: start(runtime=k) / resume(until=n) has
        just returned, i.e. every event before the current clock value has been processed"""
        if self.cluster_only:
            return
        t = istep(self.env.now)
        saved = self.snaps.get(t)
        self.end_of_step(t - 1 if t > 0 else -1)
        if saved is not None:
            self.snaps[t] = saved

    def task_state(self):
        """what a caller can read off the task objects the cluster has been given so far"""
        seen, out = set(), []
        for a in self.allocs:
            t = a.get('obj')
            if t is None or id(t) in seen:
                continue
            seen.add(id(t))
            out.append((str(t.id), t.ast, t.aft, bool(t.delay_flag), str(t.task_status)))
        return sorted(out)

    def end_of_step(self, t):
        """called before the first event of a later timestep: state here == beginning of step t+1"""
        if self.cluster_only:
            return
        sim = self.sim
        snap = self.snapshot()
        self.snaps[t + 1] = snap
        if getattr(self, 'track_task_state', False):
            self.boundary_task_state = (t + 1, self.task_state())
        truth = {
            # "no task is running and no machine is busy": neither an allocation the cluster knows of nor a task body
            # that is still executing (a body ends with or before its allocation on the unchanged tree)
            'cluster': snap['running_tasks'] == 0 and not any(s['work'] for s in self.m.values()),
            'buffer': (snap['hot_buffer'] == self.hot_cap) if not self.tier_moves else None,
            'scheduler': len(self.queue) == 0,
            'telescope': all(r['finish'] is not None for r in self.obs.values()) and self.arrays_in_use == 0,
        }
        try:
            said = {'cluster': sim.cluster.is_idle(), 'buffer': sim.buffer.is_empty(),
                    'scheduler': sim.scheduler.is_idle(), 'telescope': sim.instrument.is_idle(),
                    'simulation': sim.is_finished()}
        except Exception as e:   # a query that raises is itself a C19 violation
            self.V('C19', 'query_raised', f"idle query raised {type(e).__name__}: {e}")
            return
        self.queries[t + 1] = (truth, said)
        for k in ('cluster', 'buffer', 'scheduler', 'telescope'):
            if truth[k] is None:
                continue
            self.count(f"q_{k}_{truth[k]}")
            # "reports idle ONLY WHEN ...": a True answer must be true
            if bool(said[k]) and not truth[k]:
                self.V('C19', f'{k}_query', f"end of step {t}: {k} query says idle/empty but it is not ({snap})")
        if all(v is not None for v in truth.values()):
            tr = all(truth.values())
            if bool(said['simulation']) != tr:
                self.V('C19', 'finished_query', f"end of step {t}: is_finished() says {said['simulation']} but truth is {tr} ({truth})")
        # usage counters (C02: counts are true) at a settled point
        ud = sim.cluster._clusters['default']['usage_data']
        for key, col in (('available', 'available_resources'), ('running_tasks', 'running_tasks'),
                         ('finished_tasks', 'finished_tasks')):
            if ud[key] != snap[col]:
                self.V('C02', f'count_{key}', f"end of step {t}: cluster reports {key}={ud[key]}, true {snap[col]}")


# ----------------------------------------------------------------------------- wrappers

_installed = False


def install():
    global _installed
    if _installed:
        return
    _installed = True

    # ---- Task.do_work
    orig_do_work = Task.do_work

    def do_work(self, env, machine, predecessor_allocations=None):
        tr = CURRENT
        if tr is None:
            return (yield from orig_do_work(self, env, machine, predecessor_allocations))
        rec = {'task': self.id, 'machine': machine.id, 'enter': env.now, 'enter_seq': env.seq,
               'preds': [p.id for p in (predecessor_allocations or [])], 'obj': self}
        tr.works.append(rec)
        tr.work_begin(rec)

        def done(val, first):
            rec.update(exit=env.now, exit_seq=env.seq, ast=self.ast, aft=self.aft,
                       duration=self.duration, flag=self.delay_flag)
            tr.work_end(rec)

        def failed(e, first):
            rec.update(exit=env.now, exc=type(e).__name__)
            tr.work_end(rec)
        return (yield from drive(orig_do_work(self, env, machine, predecessor_allocations),
                                 on_return=done, on_raise=failed))
    Task.do_work = do_work

    # ---- Cluster.allocate_task_to_cluster
    orig_alloc = Cluster.allocate_task_to_cluster

    def allocate_task_to_cluster(self, task, machine, predecessor_allocations=None,
                                 observation=None, ingest=False, c='default'):
        tr = CURRENT
        if tr is None or tr.sim.cluster is not self:
            return (yield from orig_alloc(self, task, machine, predecessor_allocations, observation, ingest, c))
        rec = {'task': task.id, 'machine': machine.id, 'obs': observation, 'ingest': bool(ingest),
               't': self.env.now, 'seq': self.env.seq, 'end': None, 'refused': None,
               'preds': [p.id for p in (predecessor_allocations or [])], 'obj': task}
        tr.allocs.append(rec)
        before = pools_snapshot(self)

        def before_slice():
            if rec['end'] is None and rec['refused'] is None and 'begun' not in rec:
                tr.pending_alloc = rec

        def after_slice():
            if tr.pending_alloc is rec:
                tr.pending_alloc = None

        def begun():
            rec['begun'] = True
            tr.alloc_begin(rec)

        def done(val, first):
            if first and 'begun' not in rec:
                rec['begun'] = True
                tr.alloc_begin(rec)
            rec['end'] = self.env.now
            rec['end_seq'] = self.env.seq
            tr.alloc_end(rec)

        def failed(e, first):
            if first:
                rec['refused'] = type(e).__name__
                tr.count('alloc_refused')
                after = pools_snapshot(self)
                if after != before:
                    tr.V('C02', 'refusal_changed_pools', f"refused allocation of {task.id} on {machine.id} changed the pools: {before} -> {after}")
            else:
                rec['failed'] = type(e).__name__
        return (yield from drive(orig_alloc(self, task, machine, predecessor_allocations, observation, ingest, c),
                                 on_first_yield=begun, on_return=done, on_raise=failed,
                                 before_slice=before_slice, after_slice=after_slice))
    Cluster.allocate_task_to_cluster = allocate_task_to_cluster

    # ---- Cluster.provision_ingest_resources
    orig_pir = Cluster.provision_ingest_resources

    def provision_ingest_resources(self, demand, observation, c='default'):
        tr = CURRENT
        if tr is None or tr.sim.cluster is not self:
            return (yield from orig_pir(self, demand, observation, c))
        r = self._clusters['default']['resources']
        before_avail = [m.id for m in r['available']]
        before_ing = [m.id for m in r['ingest']]

        def first():
            tr.provision_ingest_first_slice(observation.name, demand, before_avail, before_ing)

        def failed(e, first_):
            if first_:
                tr.pending_ingest -= demand
        return (yield from drive(orig_pir(self, demand, observation, c), on_first_yield=first,
                                 on_raise=failed,
                                 on_return=lambda v, f: first() if f else None))
    Cluster.provision_ingest_resources = provision_ingest_resources

    # ---- reservations
    orig_pbr = Cluster.provision_batch_resources

    def provision_batch_resources(self, size, name, c='default'):
        tr = CURRENT
        if tr is None or tr.sim.cluster is not self:
            return orig_pbr(self, size, name, c)
        before = {k: [m.id for m in v] for k, v in self._clusters['default']['resources']['idle'].items()}
        free_before = len(tr.shadow_free_machines())
        try:
            ret = orig_pbr(self, size, name, c)
        except Exception:
            tr.count('provision_raised')
            raise
        tr.provision_calls.append({'name': name, 'size': size, 't': self.env.now, 'free_before': free_before,
                                   'live_before': len(before)})
        tr.reservation_change(name, before, 'provision', size)
        return ret
    Cluster.provision_batch_resources = provision_batch_resources

    orig_rbr = Cluster.release_batch_resources

    def release_batch_resources(self, observation, c='default'):
        tr = CURRENT
        if tr is None or tr.sim.cluster is not self:
            return orig_rbr(self, observation, c)
        before = {k: [m.id for m in v] for k, v in self._clusters['default']['resources']['idle'].items()}
        ret = orig_rbr(self, observation, c)
        tr.reservation_change(observation, before, 'release')
        return ret
    Cluster.release_batch_resources = release_batch_resources

    # ---- Telescope begin / finish
    orig_begin = Telescope.begin_observation

    def begin_observation(self, observation):
        tr = CURRENT
        if tr is None or tr.sim.instrument is not self:
            return orig_begin(self, observation)
        rec = tr.obs[observation.name]
        ingest_demand = self.pipelines[observation.name]['ingest_demand']
        vol = observation.ingest_data_rate * observation.duration
        free = len(tr.shadow_free_machines())
        on_ingest = sum(1 for s in tr.m.values()
                        if s['promised'] is not None or (s['alloc'] is not None and s['alloc']['ingest']))
        snap = {'t': self.env.now, 'free_arrays': self.total_arrays - tr.arrays_in_use,
                'free_machines': free, 'pending': tr.pending_ingest, 'on_ingest': on_ingest,
                'hot_free': tr.hot_cap - tr.hot_used_expected(),
                'hot_free_impl': tr.sim.buffer.hot[0].current_capacity,
                'cold_free_impl': tr.sim.buffer.cold[0].current_capacity,
                'volume': vol, 'ingest_demand': ingest_demand, 'demand': observation.demand}
        if rec['begin'] is not None:
            tr.V('C04', 'observed_twice', f"{observation.name} begun twice ({rec['begin']} and {self.env.now})")
            tr.V('C08', 'observed_twice', f"{observation.name} begun twice ({rec['begin']} and {self.env.now})")
        rec['begin'] = self.env.now
        rec['begin_snap'] = snap
        ret = orig_begin(self, observation)
        tr.arrays_in_use += observation.demand
        tr.pending_ingest += ingest_demand
        return ret
    Telescope.begin_observation = begin_observation

    orig_finish = Telescope.finish_observation

    def finish_observation(self, observation):
        tr = CURRENT
        if tr is None or tr.sim.instrument is not self:
            return orig_finish(self, observation)
        rec = tr.obs[observation.name]
        if rec['finish'] is not None:
            tr.V('C04', 'finished_twice', f"{observation.name} finished twice")
        rec['finish'] = self.env.now
        ret = orig_finish(self, observation)
        tr.arrays_in_use -= observation.demand
        return ret
    Telescope.finish_observation = finish_observation

    # ---- Scheduler.check_ingest_capacity (classification only)
    orig_cic = Scheduler.check_ingest_capacity

    def check_ingest_capacity(self, observation, pipelines, max_ingest):
        tr = CURRENT
        if tr is None or tr.sim.scheduler is not self:
            return orig_cic(self, observation, pipelines, max_ingest)
        ret = orig_cic(self, observation, pipelines, max_ingest)
        demand = pipelines[observation.name]['ingest_demand']
        free = len(tr.shadow_free_machines()) - tr.pending_ingest
        hot_free = tr.hot_cap - tr.hot_used_expected()
        vol = observation.ingest_data_rate * observation.duration
        if not ret:
            tr.count('capacity_refusals')
            if hot_free < vol:
                tr.count('buffer_refusals')
                if free >= demand:
                    tr.count('buffer_refusal_while_machines_free')
            if free < demand:
                tr.count('machine_refusals')
            tr.obs[observation.name].setdefault('refused_at', []).append(self.env.now)
        return ret
    Scheduler.check_ingest_capacity = check_ingest_capacity

    # ---- Scheduler.allocate_tasks (workflow allocation loop start)
    orig_at = Scheduler.allocate_tasks

    def allocate_tasks(self, observation):
        tr = CURRENT
        if tr is None or tr.sim.scheduler is not self or observation is None:
            return (yield from orig_at(self, observation))
        rec = tr.obs[observation.name]
        if rec['alloc_started_at'] is not None:
            tr.V('C04', 'workflow_started_twice', f"allocation loop for {observation.name} started twice")
        rec['alloc_started_at'] = self.env.now
        return (yield from orig_at(self, observation))
    Scheduler.allocate_tasks = allocate_tasks

    # ---- Buffer: deposits, dequeue, removal, tier moves
    orig_ids = Buffer.ingest_data_stream

    def ingest_data_stream(self, observation):
        tr = CURRENT
        if tr is None or tr.sim.buffer is not self:
            return (yield from orig_ids(self, observation))

        def before():
            tr.deposit_ctx = observation.name

        def after():
            tr.deposit_ctx = None
        return (yield from drive(orig_ids(self, observation), before_slice=before, after_slice=after))
    Buffer.ingest_data_stream = ingest_data_stream

    orig_pids = HotBuffer.process_incoming_data_stream

    def process_incoming_data_stream(self, incoming_datarate, time):
        tr = CURRENT
        if tr is None or tr.sim.buffer.hot[0] is not self:
            return orig_pids(self, incoming_datarate, time)
        before = self.current_capacity
        try:
            ret = orig_pids(self, incoming_datarate, time)
        except ValueError:
            tr.rate_rejected.append((tr.deposit_ctx, incoming_datarate, tr.env.now))
            if self.current_capacity != before:
                tr.V('C07', 'rejected_but_deposited', "rate rejected but free space changed")
            raise
        name = tr.deposit_ctx
        if name is None:
            tr.V('C07', 'anonymous_deposit', f"deposit of {incoming_datarate} outside any observation's ingest stream")
        else:
            rec = tr.obs[name]
            rec['deposits'].append((tr.env.now, incoming_datarate))
            rec['resident'] = True
            o = rec['obj']
            if len(rec['deposits']) >= o.duration - EPS:
                rec['ingest_done'] = True
        return ret
    HotBuffer.process_incoming_data_stream = process_incoming_data_stream

    orig_nofp = Buffer.next_observation_for_processing

    def next_observation_for_processing(self):
        tr = CURRENT
        if tr is None or tr.sim.buffer is not self:
            return orig_nofp(self)
        obs = orig_nofp(self)
        if obs is not None:
            rec = tr.obs[obs.name]
            if rec['queued_at'] is not None:
                tr.V('C04', 'queued_twice', f"{obs.name} handed to the scheduler twice")
            else:
                rec['queued_at'] = tr.env.now
                tr.queue.append(obs.name)
                tr.max_alive['queue'] = max(tr.max_alive.get('queue', 0), len(tr.queue))
                # C14 inside a simulation: the plan the observation carries when it is handed to the scheduler must mirror
                # ITS OWN workflow file (shipped BatchPlanning only)
                a = tr.sc['alg']
                if a['kind'] in ('batch', 'queue') or (a['kind'] == 'adversary' and a.get('planner', 'batch') == 'batch'):
                    from .props_comp import check_plan
                    o = next(x for x in tr.sc['obs'] if x['name'] == obs.name)
                    tr.count('plans_checked_at_handover')
                    if obs.plan is None:
                        tr.V('C14', 'no_plan_at_handover', f"{obs.name} handed to the scheduler without a plan")
                    else:
                        for v in check_plan({'wf': o['wf'], 'name': obs.name}, obs.plan):
                            tr.V('C14', 'sim_' + v['part'], f"{obs.name} handed to the scheduler at {tr.env.now}: " + v['msg'])
        return obs
    Buffer.next_observation_for_processing = next_observation_for_processing

    orig_mof = Buffer.mark_observation_finished

    def mark_observation_finished(self, observation):
        tr = CURRENT
        if tr is None or tr.sim.buffer is not self:
            return orig_mof(self, observation)
        rec = tr.obs[observation.name]
        ret = orig_mof(self, observation)
        rec['mark_calls'].append((tr.env.now, bool(ret)))
        if ret:
            if rec['dequeued_at'] is not None:
                tr.V('C04', 'dequeued_twice', f"{observation.name} marked finished twice")
            rec['dequeued_at'] = tr.env.now
            if observation.name in tr.queue:
                tr.queue.remove(observation.name)
            # C09: reservation must be gone at the moment the workflow is dequeued -> checked by
            # the oracle right after this scheduler slice (see oracles.C09)
            tr.pending_release_check = observation.name
        return ret
    Buffer.mark_observation_finished = mark_observation_finished

    orig_remove = HotBuffer.remove

    def remove(self, observation):
        tr = CURRENT
        if tr is None or tr.sim.buffer.hot[0] is not self:
            return orig_remove(self, observation)
        ret = orig_remove(self, observation)
        if ret:
            rec = tr.obs[observation.name]
            rec['freed_at'] = tr.env.now
            rec['resident'] = False
        return ret
    HotBuffer.remove = remove

    orig_over = Buffer.check_buffer_over_data_threshold

    def check_buffer_over_data_threshold(self, b):
        ret = orig_over(self, b)
        tr = CURRENT
        if tr is not None and tr.sim.buffer is self and ret:
            tr.tiering_entered = True
        return ret
    Buffer.check_buffer_over_data_threshold = check_buffer_over_data_threshold

    for nm in ('move_hot_to_cold', 'move_cold_to_hot'):
        def mk(orig, nm):
            def move(self, b):
                tr = CURRENT
                if tr is not None and tr.sim.buffer is self:
                    tr.tier_moves += 1
                    tr.tiering_entered = True
                return (yield from orig(self, b))
            move.__name__ = nm
            return move
        setattr(Buffer, nm, mk(getattr(Buffer, nm), nm))

    # ---- Planner.run
    orig_prun = Planner.run

    def prun(self, observation, buffer, max_ingest):
        tr = CURRENT
        plan = orig_prun(self, observation, buffer, max_ingest)
        if tr is not None and tr.sim.planner is self:
            tr.plan_objs[observation.name] = plan
            tr.plans[observation.name] = {
                't': self.env.now,
                'tasks': [{'id': t.id, 'gid': t.graph_id, 'machine': t.allocated_machine_id,
                           'est': t.est, 'eft': t.eft, 'pred': list(t.pred or []),
                           'io': dict(t.io or {}), 'flops': t.flops, 'task_data': t.task_data,
                           'obj': t}
                          for t in plan.tasks]}
        return plan
    Planner.run = prun


def pools_snapshot(cluster):
    r = cluster._clusters['default']['resources']
    return {'available': sorted(m.id for m in r['available']), 'ingest': sorted(m.id for m in r['ingest']),
            'occupied': sorted(m.id for m in r['occupied']),
            'idle': {k: sorted(m.id for m in v) for k, v in r['idle'].items()}}


def wrap_algorithm(tr, alg):
    """instance-level pass-through around algorithm.run: records proposals and ready counts"""
    orig = alg.run

    def run(cluster, clock, workflow_plan, existing_schedule, task_pool):
        ready = 0
        try:
            for t in workflow_plan.tasks:
                if t.task_status.name == 'UNSCHEDULED' and all(
                        cluster.is_task_finished(p) for p in workflow_plan.graph.predecessors(t)):
                    ready += 1
        except Exception:
            ready = -1
        free = len(tr.shadow_free_machines())
        ret = orig(cluster=cluster, clock=clock, workflow_plan=workflow_plan,
                   existing_schedule=existing_schedule, task_pool=task_pool)
        allocations = ret[0]
        rec = {'t': clock, 'obs': workflow_plan.id, 'ready': ready, 'free': free,
               'proposals': [(t.id, m.id) for t, m in allocations.items()], 'status': int(ret[1])}
        # classify proposals against the shadow
        seen = set()
        for t, m in allocations.items():
            s = tr.m[m.id]
            if t.task_status.name != 'UNSCHEDULED':
                tr.count('illegal_resubmission')
                rec['illegal'] = True
            if s['alloc'] is not None:
                tr.count('illegal_busy_ingest' if s['alloc']['ingest'] else 'illegal_busy_task')
                rec['illegal'] = True
            elif s['promised'] is not None:
                tr.count('illegal_busy_ingest')
                rec['illegal'] = True
            elif s['res'] is not None and s['res'] != workflow_plan.id:
                tr.count('illegal_foreign_reserved')
                rec['illegal'] = True
            if m.id in seen:
                tr.count('illegal_duplicate')
                rec['illegal'] = True
            seen.add(m.id)
        if tr.sc['alg']['kind'] == 'dynamic':
            try:
                for t in workflow_plan.tasks:
                    if t.task_status.name == 'UNSCHEDULED' and t not in allocations and all(
                            cluster.is_task_finished(p) for p in workflow_plan.graph.predecessors(t)):
                        ms = tr.m.get(t.allocated_machine_id)
                        if ms is not None and (ms['alloc'] is not None or ms['promised'] is not None) and free > 0:
                            tr.count('forced_wait_rounds')
            except Exception:
                pass
        if tr.sc['alg']['kind'] == 'batch' and len(workflow_plan.tasks) > 0:
            try:
                if not cluster.is_observation_provisioned(workflow_plan.id):
                    tr.count('provision_refused_rounds')
            except Exception:
                pass
        if ready > free:
            tr.count('rounds_more_ready_than_free')
        if ready >= 2:
            tr.count('rounds_ready_ge2')
        tr.algo_runs.append(rec)
        return ret
    alg.run = run
