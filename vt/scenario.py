"""Scenario = one JSON-able dict describing a whole simulation input.

  machines   [{"flops": int, "bw": int}, ...]           (ids m0, m1, ...)
  arrays, max_ingest
  obs        [{"name", "start", "duration", "demand", "rate", "ingest",
               "wf": {"nodes": [{"id", "comp", ("task_data")}], "edges": [[u, v, vol], ...]},
               "plan": {str(node id): machine index}      (static plan for ListPlanning)
               ("split": [min, max])}]
  hot  {"capacity", "rate"}   cold {"capacity", "rate"}
  unit       'seconds' | 'minutes' | 'hours' | int        (start/duration are stored in SECONDS,
                                                           rates/speeds per SECOND; they are whole
                                                           multiples of the unit where needed)
  alg        {"kind": "batch", "parts", "min", "split": bool} | {"kind": "queue"}
             | {"kind": "dynamic"} | {"kind": "greedy"}
             | {"kind": "adversary", "planner": "batch"|"list", "program": [int, ...]}
  delays     {"<obs>:<node>": extra steps}                  (injected per-task delay vector)
  delay_model null | {"prob", "dist", "degree", "seed"}    (shipped DelayModel, C10/C15)
  mode       'roomy' | 'band' | 'tiering'                  (how the buffers were sized)

Files are written by write_files(); strategies build scenarios by construction
(no assume/filter) in the buffer mode asked for.
"""
import json
import math
import os

from hypothesis import strategies as st

UNIT_FACTOR = {'seconds': 1, 'minutes': 60, 'hours': 3600}


def unit_factor(unit):
    if isinstance(unit, int):
        return unit
    return UNIT_FACTOR[unit]


def canonical(sc):
    return json.dumps(sc, sort_keys=True, separators=(',', ':'))


# ---------------------------------------------------------------- files

def workflow_json(wf):
    edges = [{"source": u, "target": v, "transfer_data": x} for u, v, x in wf["edges"]]
    g = {"directed": True, "multigraph": False, "graph": {},
         "nodes": [dict(n) for n in wf["nodes"]],
         # networkx >= 3.4 reads "edges", older reads "links": give both
         "edges": edges, "links": edges}
    return {"header": {"generator": "vt"}, "graph": g}


def config_json(sc):
    obs_cfg = []
    pipelines = {}
    for o in sc['obs']:
        pipelines[o['name']] = {"workflow": f"wf_{o['name']}.json", "ingest_demand": o['ingest']}
        d = {"name": o['name'], "start": o['start'], "duration": o['duration'],
             "instrument_demand": o['demand'], "data_product_rate": o['rate'] + o.get('rate_frac', 0)}
        obs_cfg.append(d)
    cfg = {
        "instrument": {"telescope": {
            "total_arrays": sc['arrays'], "max_ingest_resources": sc['max_ingest'],
            "pipelines": pipelines, "observations": obs_cfg}},
        "cluster": {"header": {}, "system": {
            "resources": {machine_name(sc, i): {"flops": m['flops'], "compute_bandwidth": m['bw']}
                          for i, m in enumerate(sc['machines'])},
            "system_bandwidth": 1.0}},
        "buffer": {"hot": {"capacity": sc['hot']['capacity'], "max_ingest_rate": sc['hot']['rate']},
                   "cold": {"capacity": sc['cold']['capacity'], "max_data_rate": sc['cold']['rate']}},
    }
    if sc.get('unit', 'seconds') != 'seconds' or sc.get('explicit_unit'):
        cfg["timestep"] = sc.get('unit', 'seconds')
    return cfg


def write_files(sc, d):
    os.makedirs(d, exist_ok=True)
    for o in sc['obs']:
        with open(os.path.join(d, f"wf_{o['name']}.json"), 'w') as f:
            json.dump(workflow_json(o['wf']), f)
    p = os.path.join(d, 'sim.json')
    with open(p, 'w') as f:
        json.dump(config_json(sc), f, indent=1)
    return p


def machine_name(sc, i):
    """id of the i-th machine in configuration order (default m0, m1, ...; 'mnames' lists them otherwise)"""
    names = sc.get('mnames')
    return names[i] if names else f"m{i}"


# ---------------------------------------------------------------- derived quantities (in timesteps)

def steps(sc, seconds):
    return seconds // unit_factor(sc.get('unit', 'seconds'))


def obs_volume(sc, o):
    """rate x duration, unit independent (a length that is not a whole number of steps streams for ceil(steps))"""
    u = unit_factor(sc.get('unit', 'seconds'))
    return o['rate'] * u * math.ceil(o['duration'] / u)


def serial_bound(sc, latency=3):
    """C05's analytic bound (in timesteps): latest planned start + sum of observation durations,
    task runtimes on the slowest machine, transfer waits, injected delays and a constant
    per-step latency for each of them.  Tier-transfer times are added for tiering mode."""
    u = unit_factor(sc.get('unit', 'seconds'))
    min_cpu = min(m['flops'] for m in sc['machines']) * u
    min_bw = min(m['bw'] for m in sc['machines']) * u
    b = math.ceil(max(o['start'] for o in sc['obs']) / u)
    for o in sc['obs']:
        b += math.ceil(o['duration'] / u) + latency
        for n in o['wf']['nodes']:
            rt = max(1, n['comp'] // min_cpu, n.get('task_data', 0) // min_bw)
            rt += sc.get('delays', {}).get(f"{o['name']}:{n['id']}", 0)
            b += rt + latency
        for (_, _, x) in o['wf']['edges']:
            b += math.ceil(x / min_bw)
        if sc.get('mode') == 'tiering':
            r = min(sc['hot']['rate'], sc['cold']['rate']) * u
            b += 2 * (math.ceil(obs_volume(sc, o) / r) + latency)
    if sc.get('delay_model'):
        # shipped delay model: bounded by twice the runtime for the degrees shipped (sigma <= 0.75 mu,
        # median of the upper half of 100 normal draws) - be generous: x4
        b *= 4
    return int(b)


def step_budget(sc):
    if sc.get('infeasible_min'):
        # no workflow can ever start: a few steps after the last ingest has ended are enough to judge the prefix
        u = unit_factor(sc.get('unit', 'seconds'))
        return max(math.ceil((o['start'] + o['duration']) / u) for o in sc['obs']) + 15
    return 3 * serial_bound(sc) + 50


# ---------------------------------------------------------------- strategies

NAME_ALPHABET = 'abcdefghijklmnopqrstuvwxyz0123456789'


@st.composite
def dags(draw, max_nodes=8, speeds=(1, 5, 10, 20), bws=(1, 5, 10), allow_data=True):
    n = draw(st.integers(1, max_nodes))
    labels = draw(st.permutations(list(range(n))))
    density = draw(st.sampled_from([0.0, 0.2, 0.4, 0.7, 1.0]))
    # compute demands relative to machine speeds so that runtimes 0/1/2 boundaries are hit
    comp_pool = sorted({0, 1} | {max(0, k * s + d) for s in speeds for k in (1, 2, 3, 5) for d in (-1, 0, 1)})
    data_pool = sorted({0} | {max(0, k * b + d) for b in bws for k in (1, 2, 4) for d in (-1, 0, 1)})
    vol_pool = sorted({0, 1, 3} | {k * b + d for b in bws for k in (1, 2, 3) for d in (0, 1)})
    nodes = []
    for i in range(n):
        nd = {"id": labels[i], "comp": draw(st.sampled_from(comp_pool))}
        if allow_data and draw(st.integers(0, 3)) == 0:
            nd["task_data"] = draw(st.sampled_from(data_pool))
        nodes.append(nd)
    edges = []
    if n > 1 and density > 0:
        for i in range(n):
            for j in range(i + 1, n):
                if density >= 1.0 or draw(st.floats(0, 1)) < density:
                    edges.append([labels[i], labels[j], draw(st.sampled_from(vol_pool))])
    return {"nodes": nodes, "edges": edges}


def divisors(v):
    return [d for d in range(1, v + 1) if v % d == 0]


@st.composite
def scenarios(draw, *, max_machines=6, max_obs=4, max_nodes=6,
              algs=('batch', 'queue', 'dynamic', 'greedy'),
              modes=('roomy', 'band'), delays=False, units=False,
              adversary=False, delay_model=False, min_obs=1,
              start_gaps=(0, 0, 0, 1, 1, 2, 3, 5, 10), max_duration=6,
              few_machines=False, piled_plans=False, overlap=False, limit_binds=False, unsorted=False, long_durations=False, b2b=False, twins=False, abs_est=False, zero_rate=False, frac_duration=False, frac_start=False, odd_names=False, frac_cap=False):
    nm = draw(st.integers(2 if overlap else 1, 3 if few_machines else max_machines))
    hetero = draw(st.booleans())
    speeds = (1, 2, 5, 10, 20)
    bws = (1, 2, 5, 10)
    if hetero:
        machines = [{"flops": draw(st.sampled_from(speeds)), "bw": draw(st.sampled_from(bws))}
                    for _ in range(nm)]
    else:
        f, b = draw(st.sampled_from(speeds)), draw(st.sampled_from(bws))
        machines = [{"flops": f, "bw": b} for _ in range(nm)]
    mode = draw(st.sampled_from(list(modes)))
    unit = 'seconds'
    if units and mode not in ('band', 'bandov'):      # band volumes are drawn per step: keep them in seconds
        unit = draw(st.sampled_from(['seconds', 'seconds', 'minutes', 2, 3, 60, 'hours']))
    u = unit_factor(unit)
    arrays = draw(st.sampled_from([1, 2, 4, 8]))
    max_ingest = draw(st.integers(1, nm))
    if overlap:      # make simultaneous ingests likely: many arrays, high ingest limit, small demands
        arrays = 8
        max_ingest = nm
    if limit_binds:  # plenty of machines and arrays, but a small ingest-machine limit that several
        arrays = 8   # overlapping small-demand ingests run into
        max_ingest = draw(st.integers(2, 3)) if nm >= 3 else max_ingest
    nobs = draw(st.integers(min_obs, max_obs))
    if mode == 'bandov':
        # two observations, each larger than half the hot buffer, that OVERLAP on the telescope: the second falls due so
        # late in the first one's ingest that the data already streamed leaves no room for it -> the buffer check (not
        # the arrays) postpones it until the first workflow has freed the space.  Hot usage never exceeds 60 %.
        nobs = 2
        arrays = 8
        max_ingest = nm
        unit, u = 'seconds', 1
    names = draw(st.lists(st.text(NAME_ALPHABET, min_size=1, max_size=3), min_size=nobs,
                          max_size=nobs, unique=True))
    obs = []
    t = 0
    # --- volumes by buffer mode
    if mode in ('band', 'bandov'):
        hot_cap = draw(st.integers(12, 120))
        lo = hot_cap // 2 + 1
        hi = math.ceil(0.6 * hot_cap) - 1
        if hi < lo:           # hot_cap too small for an integer in the band
            hot_cap = 21
            lo, hi = 11, 12
    for i in range(nobs):
        t += draw(st.sampled_from(start_gaps))
        if b2b and i > 0 and mode not in ('band', 'bandov') and draw(st.booleans()):
            t = obs[-1]['start'] // u + obs[-1]['duration'] // u       # exactly back-to-back with the previous one
        if mode == 'bandov':
            vol = draw(st.integers(lo, hi))
            duration = draw(st.sampled_from([d for d in divisors(vol) if 3 <= d <= 24] or [vol]))
            rate = vol // duration
            demand = draw(st.sampled_from([1, 2]))
            if i == 1:
                prev = obs[0]
                # first step k of the previous ingest after which hot free < this volume
                kmin = (hot_cap - vol) // prev['rate'] + 1
                ks = [k for k in range(kmin, prev['duration'])]
                if ks:
                    t = prev['start'] + draw(st.sampled_from(ks))
                else:
                    t = prev['start'] + prev['duration'] + draw(st.sampled_from([0, 1, 3]))
        elif mode == 'band':
            vol = draw(st.integers(lo, hi))
            duration = draw(st.sampled_from([d for d in divisors(vol) if d <= max(max_duration, 1) * 2] or [1]))
            rate = vol // duration
            demand = draw(st.integers(arrays // 2 + 1, arrays))
        else:
            duration = draw(st.integers(1, max_duration))
            if long_durations and draw(st.integers(0, 5)) == 0:
                duration = draw(st.sampled_from([12, 20, 33, 47]))     # sizes are generation bounds, not code limits
            rate = draw(st.sampled_from([1, 2, 3, 5, 10]))
            if zero_rate and draw(st.integers(0, 2)) == 0:
                rate = 0          # an observation that produces no data (the parser also rounds small rates to 0)
            demand = draw(st.sampled_from([d for d in ((1, 2) if (overlap or limit_binds) else (1, 2, 4, 8)) if d <= arrays]))
        if twins and i > 0 and mode not in ('band', 'bandov') and draw(st.booleans()):
            # same planned start and same duration as the previous observation: they begin, stop ingesting and finish together
            t = obs[-1]['start'] // u
            duration = obs[-1]['duration'] // u
        dur_s = duration * u
        if frac_duration and u > 1 and mode == 'roomy' and draw(st.booleans()):
            # a length in seconds that is not a whole number of timesteps (the parser divides, it does not round): the
            # telescope and the ingest stream then run for ceil(duration) steps
            dur_s += draw(st.integers(1, u - 1))
        start_s = t * u
        if frac_start and u > 1 and mode == 'roomy' and draw(st.booleans()):
            # planned for a second that is not on a step boundary: the first step at or after it is "on time"
            start_s += draw(st.integers(1, u - 1))
        o = {"name": names[i], "start": start_s, "duration": dur_s, "demand": demand,
             "rate": rate, "ingest": draw(st.integers(1, min(max_ingest, (max(1, max_ingest // 2) if overlap else max_ingest)
                                                                 if not limit_binds else draw(st.sampled_from([1, 1, 2]))))),
             "wf": draw(dags(max_nodes=max_nodes,
                             speeds=tuple(sorted({m['flops'] * u for m in machines})),
                             bws=tuple(sorted({m['bw'] * u for m in machines}))))}
        if unit == 'seconds' and rate >= 1 and mode == 'roomy' and draw(st.integers(0, 5)) == 0:
            # the configuration states a rate that is not a whole number; the parser rounds the per-step rate, so this is the
            # same observation as with the whole-number rate (the shadow model keeps using the rounded value)
            o['rate_frac'] = draw(st.sampled_from([0.2, 0.3, -0.3, 0.4, -0.2]))
        obs.append(o)
    if unsorted == 'maybe':
        unsorted = draw(st.booleans())
    if unsorted and len(obs) > 1:
        obs = list(draw(st.permutations(obs)))      # the plan need not list observations in start order
    # unit scaling: rates are per second; per-step rate = rate*u.  Volumes = rate*duration(seconds).
    vols = [o['rate'] * u * math.ceil(o['duration'] / u) for o in obs]
    if mode in ('band', 'bandov'):
        hot = {"capacity": hot_cap}
    elif mode == 'roomy':
        need = math.floor(sum(vols) / 0.6) + 1
        hot = {"capacity": need + draw(st.sampled_from([0, 1, 7, need, 9 * need]))}
        if draw(st.integers(0, 11)) == 0:
            # a buffer many orders of magnitude larger than the data (the repository's sample configurations use 5e11)
            hot = {"capacity": draw(st.sampled_from([need * 10 ** 10, 2 ** 62 + need]))}       # the latter is beyond 2**53
        if sum(vols) % 3 == 0 and draw(st.integers(0, 2)) == 0:
            # boundary: all data together fill the hot buffer to EXACTLY the 60 % tiering threshold (not beyond it)
            hot = {"capacity": max(1, sum(vols) * 5 // 3)}
    else:  # tiering region: each observation alone fits, but the sum may exceed 60 %
        big = max(vols)
        hot = {"capacity": draw(st.sampled_from([big + 1, int(big * 1.5) + 1, big * 2, big * 3]))}
    max_rate = max(1, max(o['rate'] for o in obs))
    hot["rate"] = max_rate * draw(st.sampled_from([1, 1, 2, 5]))
    cold = {"capacity": max(1, max(vols)) * draw(st.sampled_from([1, 2, 10])),
            "rate": draw(st.sampled_from([1, 2, 3, 10, 50]))}
    if frac_cap and mode == 'roomy' and hot["capacity"] < 2 ** 40:
        # buffer capacities that are not whole numbers (x.5 and x.25 are exact in binary, so every free-space value the
        # simulation computes from them is exact too and can be compared with == )
        hot["capacity"] = hot["capacity"] + draw(st.sampled_from([0, 0.5, 0.25]))
        cold["capacity"] = cold["capacity"] + draw(st.sampled_from([0, 0.5, 0.75]))
    # --- algorithm pairing
    kind = draw(st.sampled_from(list(algs)))
    if adversary:
        alg = {"kind": "adversary", "planner": draw(st.sampled_from(['batch', 'list'])),
               "program": draw(st.lists(st.integers(0, 255), min_size=4, max_size=40))}
    elif kind == 'batch':
        parts = draw(st.integers(1, min(3, nm)))
        mn = draw(st.integers(1, max(1, nm // parts)))
        alg = {"kind": "batch", "parts": parts, "min": mn, "split": False}
        if draw(st.integers(0, 3)) == 0:
            alg["split"] = True
            for o in obs:
                smin = draw(st.integers(1, nm))
                smax = draw(st.integers(smin, nm))
                o["split"] = [smin, smax]
            alg["min"] = min(alg["min"], min(o["split"][0] for o in obs))
    else:
        alg = {"kind": kind}
    # --- static plans (task -> machine) for the plan-following pairings
    for o in obs:
        if piled_plans and draw(st.booleans()):
            tgt = draw(st.integers(0, nm - 1))
            o["plan"] = {str(n["id"]): (tgt if draw(st.integers(0, 4)) else draw(st.integers(0, nm - 1)))
                         for n in o["wf"]["nodes"]}
        else:
            o["plan"] = {str(n["id"]): draw(st.integers(0, nm - 1)) for n in o["wf"]["nodes"]}
    sc = {"machines": machines, "arrays": arrays, "max_ingest": max_ingest, "obs": obs,
          "hot": hot, "cold": cold, "unit": unit, "alg": alg, "mode": mode,
          "delays": {}, "delay_model": None}
    if delays and draw(st.booleans()):
        for o in obs:
            for n in o["wf"]["nodes"]:
                if draw(st.integers(0, 3)) == 0:
                    sc["delays"][f"{o['name']}:{n['id']}"] = draw(st.sampled_from([1, 1, 2, 3, 7]))
    if odd_names and draw(st.booleans()):
        # machine ids whose order in the configuration differs from their alphabetical order
        pool = draw(st.sampled_from([[f"m{i}" for i in range(nm)], (['slow', 'fast', 'medium', 'gpu', 'aux', 'z9'] + [f"w{i}" for i in range(nm)])[:nm],
                                     [f"m{i}" for i in range(8, 8 + nm)]]))
        sc["mnames"] = list(draw(st.permutations(pool)))
    if abs_est and draw(st.booleans()):
        # a static planner that states the workflow's estimated start on the simulation clock (planning time + observation
        # length + slack) instead of relative to the observation: later workflows then really do begin "on time"
        sc["abs_est"] = draw(st.sampled_from([0, 1, 2, 5, 50]))
    if delay_model and draw(st.booleans()):
        sc["delay_model"] = {"prob": draw(st.sampled_from([0.0, 0.3, 0.5, 1.0])),
                             "dist": "normal",
                             "degree": draw(st.sampled_from(['LOW', 'MID', 'HIGH', 'NONE'])),
                             "seed": draw(st.one_of(st.sampled_from([0, 0, 1, 20]), st.integers(0, 1000)))}
    return sc


def classify(sc):
    """static classes of a scenario (for generator-health histograms)"""
    u = unit_factor(sc.get('unit', 'seconds'))
    starts = sorted(o['start'] // u for o in sc['obs'])
    c = {f"alg={sc['alg']['kind']}": 1, f"mode={sc['mode']}": 1, f"nobs={len(sc['obs'])}": 1,
         f"machines={len(sc['machines'])}": 1}
    if len(starts) != len(set(starts)):
        c['same_step_starts'] = 1
    iv = sorted((o['start'] // u, o['start'] // u + o['duration'] // u) for o in sc['obs'])
    if any(iv[i + 1][0] < iv[i][1] for i in range(len(iv) - 1)):
        c['overlapping_obs'] = 1
    if any(iv[i + 1][0] == iv[i][1] for i in range(len(iv) - 1)):
        c['back_to_back_obs'] = 1
    if [o['start'] for o in sc['obs']] != sorted(o['start'] for o in sc['obs']):
        c['plan_not_in_start_order'] = 1
    if sc.get('delays'):
        c['delays'] = 1
    if sc.get('unit', 'seconds') != 'seconds':
        c['non_second_unit'] = 1
    if sc['hot']['rate'] < sc['cold']['rate']:
        c['hot_slower_than_cold'] = 1
    return c
