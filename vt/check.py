"""CLI:  python -m vt.check <Cxx> [--tier quick|thorough] [--replay FILE] [--shards N] [--cases N]

exit 0  property held on everything explored (KNOWN-FINDING lines may be printed)
exit 1  a reproduced, unlisted violation: prints  VIOLATION property=<id> replay=<path>
exit 2  harness error / inconclusive (never a VIOLATION line)
"""
import argparse
import glob
import hashlib
import json
import multiprocessing as mp
import os
import sys
import tempfile
import time
import traceback

VERIF = os.path.dirname(os.path.dirname(os.path.abspath(__file__)))
OUT = os.environ.get('VT_OUT') or VERIF       # evidence/ and replays/ go here (selftest redirects it)


def reexec_with_hashseed():
    if os.environ.get('PYTHONHASHSEED') != '0' and not os.environ.get('VT_NO_REEXEC'):
        env = dict(os.environ)
        env['PYTHONHASHSEED'] = '0'
        env['VT_NO_REEXEC'] = '1'
        os.execve(sys.executable, [sys.executable, '-m', 'vt.check'] + sys.argv[1:], env)


def get_spec(prop):
    from . import registry
    return registry.get(prop)


def _worker(args):
    prop, tier, seed, shard, nshards, stop_path, cases = args
    try:
        from .engine import ShardState
        spec = get_spec(prop)
        state = ShardState(prop, tier, stop_path=stop_path,
                           shrink_box=20.0 if tier == 'quick' else 120.0)
        spec.run_shard(state, tier, seed, shard, nshards, cases)
        return state.result()
    except BaseException:
        return {'fatal': traceback.format_exc()}


def merge(results):
    agg = {'evaluations': 0, 'nontrivial': set(), 'classes': {}, 'samples': [], 'failures': [],
           'known_hits': {}, 'aborted': 0, 'excluded': 0, 'budget_exhausted': False,
           'harness_errors': [], 'extra': {}}
    for r in results:
        agg['evaluations'] += r['evaluations']
        agg['nontrivial'].update(r['nontrivial'])
        for k, v in r['classes'].items():
            agg['classes'][k] = agg['classes'].get(k, 0) + v
        for s in r['samples']:
            if len(agg['samples']) < 5:
                agg['samples'].append(s)
        agg['failures'] += r['failures']
        for k, v in r['known_hits'].items():
            agg['known_hits'][k] = agg['known_hits'].get(k, 0) + v
        agg['aborted'] += r['aborted']
        agg['excluded'] += r['excluded']
        agg['budget_exhausted'] |= r['budget_exhausted']
        agg['harness_errors'] += r['harness_errors']
        for k, v in r['extra'].items():
            if isinstance(v, (int, float)) and not isinstance(v, bool):
                if k.startswith('max_'):
                    agg['extra'][k] = max(agg['extra'].get(k, v), v)
                else:
                    agg['extra'][k] = agg['extra'].get(k, 0) + v
            elif isinstance(v, list):
                agg['extra'].setdefault(k, [])
                agg['extra'][k] += v
            else:
                agg['extra'][k] = v
    return agg


def write_replay(prop, case, violations, kind='case'):
    d = os.path.join(OUT, 'replays', prop)
    os.makedirs(d, exist_ok=True)
    blob = json.dumps(case, sort_keys=True, default=str)
    p = os.path.join(d, hashlib.sha1(blob.encode()).hexdigest()[:12] + '.json')
    with open(p, 'w') as f:
        json.dump({'property': prop, 'kind': kind, 'case': case,
                   'violations': [{k: v for k, v in x.items() if k in ('prop', 'part', 'msg', 'sig')} for x in violations[:10]]},
                  f, indent=1, default=str)
    return p


def write_evidence(prop, tier, seed, spec, agg, wall, nviol, exhaustive=False):
    os.makedirs(os.path.join(OUT, 'evidence'), exist_ok=True)
    cov = {
        'evaluations': agg['evaluations'],
        'distinct_nontrivial': len(agg['nontrivial']),
        'rule': spec.rule,
        'samples': agg['samples'][:5],
        'classes': dict(sorted(agg['classes'].items())),
        'aborted_runs': agg['aborted'],
        'excluded_by_construction': agg['excluded'],
        'known_findings_hit': agg['known_hits'],
        'budget_exhausted': agg['budget_exhausted'],
        'exhaustive': bool(exhaustive),
    }
    for k, v in agg['extra'].items():
        cov[k] = v if not isinstance(v, list) else v[:8]
    ev = {'property_id': prop, 'tier': tier, 'seed': seed, 'level': 'exploration', 'coverage': cov,
          'assumptions': list(spec.assumptions), 'wall_s': round(wall, 2), 'violations': nviol}
    p = os.path.join(OUT, 'evidence', f'{prop}.json')
    with open(p, 'w') as f:
        json.dump(ev, f, indent=1, default=str)
    return p


def replay_file(spec, path):
    from .engine import ShardState
    with open(path) as f:
        blob = json.load(f)
    state = ShardState(spec.prop, 'quick')
    if blob.get('kind') == 'sequence':
        # several cases run one after the other in this one process (history-dependent failure)
        bad = []
        for case in blob['cases']:
            bad += spec.replay_case(case, state)
    else:
        bad = spec.replay_case(blob['case'], state)
    return blob, state, bad


def try_sequences(prop, cands):
    """a failure that does not reproduce alone: replay it after the cases that preceded it in its shard,
    shortest suffix first, each attempt in a fresh interpreter"""
    import subprocess
    for f in cands:
        if len(f) < 3 or not f[2]:
            continue
        case, bad0, ctx = f[0], f[1], f[2]
        for k in range(1, len(ctx) + 1):
            seq = ctx[-k:] + [case]
            d = os.path.join(OUT, 'replays', prop)
            os.makedirs(d, exist_ok=True)
            blob = json.dumps(seq, sort_keys=True, default=str)
            path = os.path.join(d, 'seq_' + hashlib.sha1(blob.encode()).hexdigest()[:12] + '.json')
            with open(path, 'w') as fh:
                json.dump({'property': prop, 'kind': 'sequence', 'cases': seq,
                           'note': 'the last case only fails after the preceding ones have run in the same process',
                           'violations': [{k_: v for k_, v in x.items() if k_ in ('prop', 'part', 'msg', 'sig')} for x in bad0[:6]]},
                          fh, indent=1, default=str)
            r = subprocess.run([sys.executable, '-m', 'vt.check', prop, '--replay', path], capture_output=True, text=True,
                               env=dict(os.environ, VT_NO_REEXEC='1'))
            if r.returncode == 1:
                return path, bad0
            os.remove(path)
    return None


def main(argv=None):
    ap = argparse.ArgumentParser()
    ap.add_argument('prop')
    ap.add_argument('--tier', default=os.environ.get('VERIF_TIER', 'quick'), choices=['quick', 'thorough'])
    ap.add_argument('--replay')
    ap.add_argument('--shards', type=int, default=int(os.environ.get('VT_SHARDS', '16')))
    ap.add_argument('--cases', type=int, default=None)
    ap.add_argument('--no-corpus', action='store_true')
    a = ap.parse_args(argv)
    reexec_with_hashseed()
    seed = int(os.environ.get('VERIF_SEED', '1') or 1)
    prop = a.prop
    t0 = time.time()
    try:
        spec = get_spec(prop)
    except Exception:
        traceback.print_exc()
        return 2

    if a.replay:
        try:
            blob, state, bad = replay_file(spec, a.replay)
        except Exception:
            traceback.print_exc()
            return 2
        for v in bad[:10]:
            print(f"  {v['prop']}/{v['part']}: {v['msg']}")
        if bad:
            print(f"VIOLATION property={prop} replay={a.replay}")
            return 1
        print(f"replay {a.replay}: no unlisted violation (known hits: {state.known_hits})")
        return 0

    from .engine import load_known
    known = load_known(prop)
    violations = []      # (replay path, [violations])
    known_status = {}

    # ---- 1. corpus replay (witnesses of fixed defects must pass; witnesses of known findings are re-run)
    corpus_n = 0
    if not a.no_corpus:
        for p in sorted(glob.glob(os.path.join(VERIF, 'corpus', prop, '*.json'))):
            try:
                blob, state, bad = replay_file(spec, p)
            except Exception:
                print(f"harness error replaying {p}", file=sys.stderr)
                traceback.print_exc()
                return 2
            corpus_n += 1
            if blob.get('expect') == 'known':
                kid = blob.get('known_id')
                known_status[kid] = 'still reproduces' if state.known_hits.get(kid) else 'witness no longer reproduces'
            if bad:
                violations.append((p, bad))

    # ---- 2. generated search, sharded
    nshards = max(1, a.shards)
    stop_dir = tempfile.mkdtemp(prefix='vt_stop_')
    stop_path = os.path.join(stop_dir, 'stop')
    jobs = [(prop, a.tier, seed, i, nshards, stop_path, a.cases) for i in range(nshards)]
    if nshards == 1:
        results = [_worker(jobs[0])]
    else:
        ctx = mp.get_context('spawn')
        with ctx.Pool(min(nshards, os.cpu_count() or 1)) as pool:
            results = pool.map(_worker, jobs, chunksize=1)
    try:
        if os.path.exists(stop_path):
            os.remove(stop_path)
        os.rmdir(stop_dir)
    except OSError:
        pass
    fatal = [r['fatal'] for r in results if 'fatal' in r]
    if fatal:
        print("harness error in a shard:\n" + fatal[0], file=sys.stderr)
        return 2
    agg = merge(results)
    agg['extra']['corpus_replayed'] = corpus_n
    if agg['harness_errors'] and not agg['failures']:
        print("harness error:\n" + agg['harness_errors'][0], file=sys.stderr)
        return 2

    # ---- 3. confirm the smallest failure outside Hypothesis
    rc = 0
    if agg['failures']:
        from .engine import ShardState, smallest_failure
        cands = sorted(agg['failures'], key=lambda f: len(json.dumps(f[0], default=str)))
        confirmed = None
        t_confirm = time.time()
        for i_c, cand in enumerate(cands[:40]):
            if i_c >= 5 and time.time() - t_confirm > 150:
                break
            case, bad0 = cand[0], cand[1]
            st_ = ShardState(prop, a.tier, known=known)
            try:
                bad = spec.replay_case(case, st_)
            except Exception:
                traceback.print_exc()
                return 2
            if bad:
                confirmed = (case, bad)
                break
        if confirmed is None:
            seq = try_sequences(prop, cands[:4])
            if seq is None:
                print(f"harness error: {len(agg['failures'])} failing cases did not reproduce outside Hypothesis", file=sys.stderr)
                return 2
            violations.append(seq)
        else:
            path = write_replay(prop, confirmed[0], confirmed[1])
            violations.append((path, confirmed[1]))

    for path, bad in violations:
        for v in bad[:6]:
            print(f"  {v['prop']}/{v['part']}: {v['msg'][:300]}")
        print(f"VIOLATION property={prop} replay={path}")
        rc = 1

    for k in known:
        hits = agg['known_hits'].get(k['id'], 0)
        print(f"KNOWN-FINDING: property={prop} {k['id']} {k['text']} [hit {hits}x in this run; witness: {known_status.get(k['id'], 'n/a')}]")

    wall = time.time() - t0
    nontriv = len(agg['nontrivial'])
    exhaustive = bool(agg['extra'].pop('exhaustive', False))
    write_evidence(prop, a.tier, seed, spec, agg, wall, len(violations), exhaustive)
    print(f"{prop} {a.tier}: {agg['evaluations']} cases, {nontriv} distinct non-trivial, "
          f"{agg['aborted']} aborted, known hits {agg['known_hits']}, {wall:.1f}s, violations={len(violations)}")
    if rc == 0 and nontriv < 2:
        print("inconclusive: fewer than two non-trivial cases", file=sys.stderr)
        return 2
    if rc == 0 and agg['aborted'] > 0.5 * max(1, agg['evaluations']):
        print(f"inconclusive: {agg['aborted']} of {agg['evaluations']} runs aborted (raised or exceeded the step budget) - "
              "this property could not be judged on them; see C05", file=sys.stderr)
        return 2
    return rc


if __name__ == '__main__':
    sys.exit(main())
