"""property id -> spec object"""


def get(prop):
    from . import props_sim
    specs = dict(props_sim.SPECS)
    for modname in ('props_comp', 'props_diff'):
        try:
            mod = __import__(f'vt.{modname}', fromlist=['SPECS'])
            specs.update(mod.SPECS)
        except ModuleNotFoundError as e:
            if modname not in str(e):
                raise
    return specs[prop]
