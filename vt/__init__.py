"""Property-based verification harness for top-sim/topsim (see /verif/DESIGN.md)."""
import os
import warnings

os.environ.setdefault('TQDM_DISABLE', '1')
os.environ.setdefault('PYTHONDONTWRITEBYTECODE', '1')
warnings.filterwarnings('ignore')
