"""Writes /verif/MANIFEST.json from the registry (python -m vt.mkmanifest)."""
import json
import os

VERIF = os.path.dirname(os.path.dirname(os.path.abspath(__file__)))
BASELINE = ("cd /repo && /venv/bin/python -m pytest -ra -q -p no:cacheprovider --timeout=900 "
            "--continue-on-collection-errors")

CLAIMED = {}     # filled from the specs' metadata
UNCLAIMED_REASON = "check not built yet in this session (planned, see DESIGN.md section 6)"


def main():
    from . import registry, props_sim
    specs = dict(props_sim.SPECS)
    for modname in ('props_comp', 'props_diff'):
        try:
            mod = __import__(f'vt.{modname}', fromlist=['SPECS'])
            specs.update(mod.SPECS)
        except ModuleNotFoundError:
            pass
    props = [json.loads(l) for l in open(os.path.join(VERIF, 'properties.jsonl'))]
    checks, na = [], []
    for p in props:
        pid = p['id']
        if pid in specs:
            s = specs[pid]
            checks.append({
                "property_id": pid,
                "quick_cmd": f"./check {pid} --tier quick",
                "thorough_cmd": f"./check {pid} --tier thorough",
                "evidence_file": f"/verif/evidence/{pid}.json",
                "replay_cmd_template": f"./check {pid} --replay {{path}}",
                "engine": "vt",
                "level_claimed": {"category": "exploration", "text": s.level_text or s.rule,
                                  "design_ref": f"DESIGN.md section 6 {pid}"},
                "level_note": "; ".join(s.assumptions),
                "technique": getattr(s, 'technique', "property-based testing (Hypothesis) of whole simulations against a shadow-model oracle"),
            })
        else:
            na.append({"property_id": pid, "reason": UNCLAIMED_REASON})
    man = {
        "version": 1,
        "setup_cmd": "/venv/bin/python -c \"import hypothesis, simpy, networkx, pandas\" || /venv/bin/pip install --no-index --find-links /opt/veriftools/wheels hypothesis",
        "hooks": {"guard": "TOPSIM_VERIF", "enable": "no source hooks: checks import topsim from /repo's working tree (PYTHONPATH=/repo) and observe it through a simpy.Environment subclass and pass-through wrappers installed by the harness at run time; ./check exports TOPSIM_VERIF=1 for symmetry only",
                  "baseline_off_cmd": BASELINE, "source_commits": [], "add_only": True},
        "engines": [{"name": "vt", "path": "/verif/vt", "serves_properties": sorted(specs.keys()),
                     "kind_free_text": "Hypothesis 6.168 property-based testing: structured scenario strategies, rule-based state machines, bounded exhaustive enumeration; shadow-model / differential / metamorphic oracles; 16 seeded shard processes"}],
        "checks": checks,
        "notes": "All checks: cwd=/verif, ./check <id> --tier quick|thorough; VERIF_SEED honoured; exit 0/1/2 as in DESIGN.md section 2. Known findings: /verif/known-findings.txt.",
        "not_applicable": na,
    }
    with open(os.path.join(VERIF, 'MANIFEST.json'), 'w') as f:
        json.dump(man, f, indent=1)
    print(f"{len(checks)} checks, {len(na)} not claimed")


if __name__ == '__main__':
    main()
