"""ClusterOps: operation histories on a real topsim Cluster, checked against the shadow model.

An operation list is plain JSON, e.g.
  ["provision", size, name] ["release", name] ["ingest", demand, duration]
  ["allocate", duration, machine index, obs|None] ["advance", steps]
so that a failing history is its own replay file.  ClusterOpsModel.apply() executes one operation
on the real cluster and returns the violations the shadow model saw."""
import types

from topsim.core.cluster import Cluster
from topsim.core.machine import Machine
from topsim.core.task import Task

from . import trace as T

T.install()


class StubConfig:
    def __init__(self, speeds):
        self.speeds = speeds

    def parse_cluster_config(self):
        return [Machine(id=f"m{i}", cpu=c, memory=1, disk=1, bandwidth=b)
                for i, (c, b) in enumerate(self.speeds)], 1.0


class StubObservation:
    def __init__(self, name, duration):
        self.name = name
        self.duration = duration


class ClusterOpsModel:
    def __init__(self, n_machines, max_ingest=None):
        self.env = T.TraceEnv()
        self.cluster = Cluster(self.env, StubConfig([(10, 5)] * n_machines))
        self.n = n_machines
        self.max_ingest = max_ingest or n_machines
        sim = types.SimpleNamespace(cluster=self.cluster, buffer=None, instrument=None,
                                    scheduler=None, planner=None)
        sc = {'alg': {'kind': 'ops'}, 'machines': [{}] * n_machines}
        self.tr = T.Trace(sc, sim, self.env)
        self.env.process(self.cluster.run())
        self.ops = []
        self.k = 0
        self.classes = {}
        self.seen = 0
        self.dead = False

    # ------------------------------------------------------------------
    def count(self, k):
        self.classes[k] = self.classes.get(k, 0) + 1

    def _settle(self):
        """process every event scheduled for the current instant (first slices of new processes)"""
        while self.env.peek() == self.env.now:
            self.env.step()

    def _new_violations(self):
        v = self.tr.violations[self.seen:]
        self.seen = len(self.tr.violations)
        return v

    def machine_class(self, idx, obs):
        s = self.tr.m[f"m{idx}"]
        if s['alloc'] is not None:
            return 'busy_ingest' if s['alloc']['ingest'] else 'busy_task'
        if s['promised'] is not None:
            return 'busy_ingest'
        if s['res'] is not None:
            return 'own_reserved' if s['res'] == obs else 'foreign_reserved'
        return 'free'

    def apply(self, op):
        """returns list of violation dicts"""
        T.CURRENT = self.tr
        try:
            return self._apply(op)
        finally:
            T.CURRENT = None

    def _apply(self, op):
        tr, cl, env = self.tr, self.cluster, self.env
        self.ops.append(op)
        kind = op[0]
        before = T.pools_snapshot(cl)
        before_n = cl.num_provisioned_obs
        extra = []
        try:
            if kind == 'provision':
                _, size, name = op
                if name in tr.res_live:
                    # topping up a live reservation: Cluster.num_provisioned_obs counts calls, not reservations, from here
                    # on; C02 does not name that counter, so it is no longer compared in this history (pools still are)
                    self.topped_up = True
                    self.count('provision_top_up')
                try:
                    cl.provision_batch_resources(size, name)
                    self.count('provision_ok')
                except Exception as e:
                    self.count('provision_refused')
                    if T.pools_snapshot(cl) != before or cl.num_provisioned_obs != before_n:
                        extra.append({'prop': 'C02', 'part': 'refusal_changed_pools',
                                      'msg': f"refused provision({size},{name}) ({type(e).__name__}) changed the pools {before} -> {T.pools_snapshot(cl)}"})
            elif kind == 'release':
                _, name = op
                live = name in tr.res_live
                busy = any(s['res'] == name and s['alloc'] is not None for s in tr.m.values())
                cl.release_batch_resources(name)
                self.count('release_live_busy' if live and busy else 'release_live' if live else 'release_dead')
                if not live and T.pools_snapshot(cl) != before:
                    extra.append({'prop': 'C02', 'part': 'release_dead_changed_pools',
                                  'msg': f"release of unknown reservation {name} changed the pools"})
            elif kind == 'ingest':
                _, demand, duration = op
                ok = cl.check_ingest_capacity(demand, self.max_ingest)
                if T.pools_snapshot(cl) != before:
                    extra.append({'prop': 'C02', 'part': 'check_changed_pools', 'msg': "check_ingest_capacity changed the pools"})
                free = len(tr.shadow_free_machines())
                on_ing = sum(1 for s in tr.m.values() if s['promised'] is not None or (s['alloc'] and s['alloc']['ingest']))
                truth = demand <= self.max_ingest and free >= demand and on_ing + demand <= self.max_ingest
                if bool(ok) != truth:
                    extra.append({'prop': 'C02', 'part': 'ingest_check_wrong',
                                  'msg': f"check_ingest_capacity({demand},{self.max_ingest}) says {ok}; shadow: {free} free, {on_ing} on ingest"})
                if ok:
                    self.k += 1
                    obs = StubObservation(f"ing{self.k}", duration)
                    tr.pending_ingest += demand

                    def driver(obs=obs, demand=demand, duration=duration):
                        env.process(cl.provision_ingest_resources(demand, obs))
                        yield env.timeout(duration)
                        cl.clean_up_ingest()
                    env.process(driver())
                    self.count('ingest_started')
                else:
                    self.count('ingest_refused')
            elif kind == 'ingest_force':
                # Cluster.provision_ingest_resources called directly (as the repository's own test does):
                # it either proceeds or refuses with RuntimeError - a refusal must change nothing
                _, demand, duration = op
                self.k += 1
                obs = StubObservation(f"ing{self.k}", duration)
                tr.pending_ingest += demand
                self._force = {'before': before, 'ud': dict(cl._clusters['default']['usage_data']), 'nalloc': len(tr.allocs)}
                env.process(cl.provision_ingest_resources(demand, obs))
                self.count('ingest_force')
            elif kind == 'allocate':
                _, duration, midx, obs = op
                self.k += 1
                cls = self.machine_class(midx, obs)
                self.count(f"allocate_on_{cls}")
                task = Task(f"t_{self.k}", 0, duration, None, [], 0, 0, {}, None)
                env.process(cl.allocate_task_to_cluster(task, cl.machines[midx], [], obs))
            elif kind == 'advance':
                _, k = op
                self._settle()
                env.run(until=env.now + k)
            self._settle()
        except Exception as e:
            if T.harness_frame_innermost(e):
                raise
            rec = next((a for a in reversed(tr.allocs) if a.get('refused')), None)
            refused_now = kind == 'allocate' and rec is not None and rec['t'] == env.now and rec['task'] == f"t_{self.k}"
            if kind == 'ingest_force' and T.repo_frame(e) and 'provision_ingest_resources' in T.repo_frame(e):
                self.count('ingest_force_refused')
                try:
                    self._settle()
                except Exception as e2:
                    extra.append({'prop': 'C02', 'part': 'operation_raised',
                                  'msg': f"{op}: {type(e2).__name__}@{T.repo_frame(e2)} {e2}"})
                    self.dead = True
                f = self._force
                after = T.pools_snapshot(cl)
                if after != f['before'] or dict(cl._clusters['default']['usage_data']) != f['ud'] or len(tr.allocs) != f['nalloc']:
                    extra.append({'prop': 'C02', 'part': 'refusal_changed_pools',
                                  'msg': f"refused provision_ingest_resources({op[1]}) ({type(e).__name__}) changed the cluster: pools {f['before']} -> {after}, "
                                         f"counters {f['ud']} -> {dict(cl._clusters['default']['usage_data'])}, {len(tr.allocs) - f['nalloc']} ingest tasks started"})
                    self.dead = True
            elif refused_now:
                self.count('allocate_refused')
                # drain the rest of this instant
                try:
                    self._settle()
                except Exception as e2:
                    extra.append({'prop': 'C02', 'part': 'operation_raised',
                                  'msg': f"{op}: {type(e2).__name__}@{T.repo_frame(e2)} {e2}"})
                    self.dead = True
            else:
                extra.append({'prop': 'C02', 'part': 'operation_raised',
                              'msg': f"{op}: {type(e).__name__}@{T.repo_frame(e)} {e}"})
                self.dead = True
        if kind == 'allocate' and not self.dead:
            rec = tr.allocs[-1] if tr.allocs else None
            if rec is not None and rec['task'] == f"t_{self.k}" and rec.get('begun'):
                self.count('allocate_accepted')
        # invariants after every rule
        tr.check_pools()
        out = [v for v in self._new_violations()] + extra
        # counts and queries at a settled point
        n_alloc = sum(1 for s in tr.m.values() if s['alloc'] is not None)
        ud = cl._clusters['default']['usage_data']
        try:
            df = cl.to_df()
            rep = {k: int(df[k][0]) for k in ('available_resources', 'running_tasks', 'finished_tasks', 'provisioned_observations')}
        except Exception as e:
            rep = None
            out.append({'prop': 'C02', 'part': 'to_df_raised', 'msg': f"{type(e).__name__}: {e}"})
        if rep is not None and not self.dead:
            truth = {'available_resources': self.n - n_alloc, 'running_tasks': n_alloc,
                     'finished_tasks': tr.completed, 'provisioned_observations': len(tr.res_live)}
            for k in truth:
                if rep[k] != truth[k]:
                    out.append({'prop': 'C02', 'part': f'count_{k}', 'msg': f"after {op}: to_df reports {k}={rep[k]}, true {truth[k]}"})
            if cl.num_provisioned_obs != len(tr.res_live) and not getattr(self, 'topped_up', False):
                out.append({'prop': 'C02', 'part': 'count_reservations', 'msg': f"after {op}: reservation counter {cl.num_provisioned_obs}, live reservations {len(tr.res_live)}"})
            idle_truth = n_alloc == 0
            said = cl.is_idle()
            self.count(f"idle_truth_{idle_truth}")
            if said and not idle_truth:
                out.append({'prop': 'C19', 'part': 'cluster_query', 'msg': f"after {op}: Cluster.is_idle() True with {n_alloc} active allocations"})
        return out

    def nontrivial(self):
        c = self.classes
        refusal = c.get('allocate_refused') or c.get('provision_refused') or c.get('ingest_refused')
        return bool(refusal and c.get('provision_ok') and c.get('ingest_started') and c.get('allocate_accepted'))


def run_ops(n, ops, max_ingest=None):
    m = ClusterOpsModel(n, max_ingest)
    out = []
    for op in ops:
        if m.dead:
            break
        out += m.apply(op)
    return m, out
