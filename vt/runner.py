"""run_scenario(sc) -> Trace: builds the real Simulation on a TraceEnv from generated files and calls
the real start()/resume()."""
import contextlib
import io
import os
import shutil
import tempfile

from topsim.core.delay import DelayModel
from topsim.core.simulation import Simulation
from topsim.user.plan.batch_planning import BatchPlanning
from topsim.user.schedule.batch_allocation import BatchProcessing
from topsim.user.schedule.dynamic_plan import DynamicSchedulingFromPlan
from topsim.user.schedule.greedy import GreedySchedulingFromPlan
from topsim.user.schedule.queue_allocation import QueueProcessing
from topsim.user.telescope import Telescope

from . import trace as T
from .plans import (Adversary, DelayedBatchPlanning, DelayedListPlanning, batch_literal)
from .scenario import step_budget, write_files

T.install()


def make_delay_model(spec):
    if not spec:
        return None
    return DelayModel(spec['prob'], spec['dist'], DelayModel.DelayDegree[spec['degree']], seed=spec['seed'])


def build(sc, workdir, env=None, budget=None, dm=None):
    """dm: a DelayModel OBJECT to use instead of building one from sc['delay_model'] (the same object may be handed to several
    simulations, as an experiment loop that creates its delay model once does)"""
    cfg = write_files(sc, workdir)
    if env is None:
        env = T.TraceEnv(budget=budget)
    a = sc['alg']
    if dm is None:
        dm = make_delay_model(sc.get('delay_model'))
    delays = sc.get('delays') or {}
    choice = {}
    for o in sc['obs']:
        for k, v in (o.get('plan') or {}).items():
            choice[(o['name'], int(k))] = v
    kind = a['kind']
    planner_kind = 'batch' if kind in ('batch', 'queue') else 'list'
    if kind == 'adversary':
        planner_kind = a.get('planner', 'batch')
    if planner_kind == 'batch':
        plan = DelayedBatchPlanning(batch_literal(), delay_model=dm, delays=delays)
    else:
        plan = DelayedListPlanning('list', delay_model=dm, choice=choice, delays=delays, abs_est=sc.get('abs_est'))
    if kind == 'batch':
        split = None
        if a.get('split'):
            split = {o['name']: tuple(o['split']) for o in sc['obs']}
        alg = BatchProcessing(max_resource_partitions=a['parts'],
                              min_resources_per_workflow=a['min'], resource_split=split)
    elif kind == 'queue':
        alg = QueueProcessing()
    elif kind == 'dynamic':
        alg = DynamicSchedulingFromPlan()
    elif kind == 'greedy':
        alg = GreedySchedulingFromPlan()
    elif kind == 'adversary':
        alg = Adversary(a['program'])
    else:
        raise ValueError(kind)
    sim = Simulation(env, cfg, Telescope, plan, kind, alg, delay=dm, timestamp=0)
    return sim, env


@contextlib.contextmanager
def quiet():
    with contextlib.redirect_stdout(io.StringIO()):
        yield


def prepare(sc):
    """build the real Simulation (files in a scratch directory) and its Trace, without running it"""
    d = tempfile.mkdtemp(prefix='vt_')
    budget = step_budget(sc)
    try:
        with quiet():
            sim, env = build(sc, d, budget=budget)
    except BaseException:
        shutil.rmtree(d, ignore_errors=True)
        raise
    tr = T.Trace(sc, sim, env)
    tr.workdir = d
    tr.budget = budget
    return tr


def execute(tr, pause=None, keep=False, every_event=None, runtime=None):
    sc, sim, env, d = tr.sc, tr.sim, tr.env, tr.workdir
    try:
        tr.check_every_event = every_event
        tr.snaps[0] = tr.snapshot()
        T.wrap_algorithm(tr, sim.scheduler.algorithm)
        T.CURRENT = tr
        try:
            with quiet():
                if pause:
                    ret = sim.start(runtime=pause[0])
                    tr.pause_rets = [ret]
                    tr.query_now()           # "reports finished exactly when ...": also at every pause point
                    tr.count('queries_at_pause_points')
                    for until in pause[1:]:
                        sim.resume(until=until)
                        if until != pause[-1]:
                            tr.query_now()
                            tr.count('queries_at_pause_points')
                    tr.df = sim.monitor.df
                    tr.tasks_df = sim._generate_final_task_data()
                elif runtime:
                    ret = sim.start(runtime=runtime)
                    tr.df, tr.tasks_df = ret
                else:
                    ret = sim.start()
                    tr.df, tr.tasks_df = ret
            tr.events_df = sim.monitor.events
            tr.status = 'completed'
        except T.StepBudgetExceeded as e:
            tr.status = 'budget'
            tr.exc = e
            tr.partial = True
            try:                      # what the monitor has recorded so far is still judged (prefix properties)
                tr.events_df = sim.monitor.events
                tr.df = sim.monitor.df
            except Exception:
                pass
        except Exception as e:
            if T.harness_frame_innermost(e) and not isinstance(e, AssertionError):
                raise
            tr.status = 'raised'
            tr.exc = e
            tr.exc_sig = f"{type(e).__name__}@{T.repo_frame(e)}"
            tr.exc_msg = str(e)[:200]
        tr.final_now = env.now
        T.CURRENT = tr
        try:
            tr.final_queries()
        finally:
            T.CURRENT = None
        return tr
    finally:
        T.CURRENT = None
        if not keep:
            shutil.rmtree(d, ignore_errors=True)


def run_scenario(sc, pause=None, keep=False, every_event=None, runtime=None):
    """pause: None -> start();  [k, u1, u2, ...] -> start(runtime=k) then resume(until=u_i)...
    runtime: int -> start(runtime=runtime)"""
    return execute(prepare(sc), pause=pause, keep=keep, every_event=every_event, runtime=runtime)


def run_pair(sc_a, sc_b, order='seq'):
    """two simulations in one interpreter.  'seq': build A, run A, build B, run B;  'built_first': both are built before
    either runs (A runs first);  'built_first_rev': both built, B runs first"""
    if order == 'seq':
        return run_scenario(sc_a), run_scenario(sc_b)
    ta = prepare(sc_a)
    try:
        tb = prepare(sc_b)
    except BaseException:
        shutil.rmtree(ta.workdir, ignore_errors=True)
        raise
    if order == 'built_first':
        try:
            execute(ta)
        finally:
            execute(tb)
    else:
        try:
            execute(tb)
        finally:
            execute(ta)
    return ta, tb
