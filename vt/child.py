"""Child interpreter for C10: reads one scenario JSON per line on stdin, runs it twice in this
process, prints one JSON line {digest, digest2, nontrivial, status}.  Started by the parent with a
chosen PYTHONHASHSEED; runs in its own working directory so that the config path is identical in
all children."""
import hashlib
import json
import os
import sys


def table_digest(df, drop_suffix=('-algtime',)):
    if df is None:
        return 'none'
    cols = [c for c in df.columns if not any(str(c).endswith(s) for s in drop_suffix)]
    d = df[cols]
    blob = json.dumps({'cols': [str(c) for c in cols], 'index': [str(i) for i in d.index],
                       'rows': d.astype(object).where(d.notna(), None).values.tolist()}, default=str, sort_keys=True)
    return hashlib.sha1(blob.encode()).hexdigest()


def _build(sc, workdir, dm=None):
    import shutil
    from vt import trace as T
    from vt.runner import build, quiet
    from vt.scenario import step_budget
    shutil.rmtree(workdir, ignore_errors=True)
    os.makedirs(workdir)
    cwd = os.getcwd()
    os.chdir(workdir)
    try:
        with quiet():
            sim, env = build(sc, '.', budget=step_budget(sc), dm=dm)
    finally:
        os.chdir(cwd)
    return T.Trace(sc, sim, env)


def _run(tr, workdir):
    from vt import trace as T
    from vt.runner import quiet
    sim, env = tr.sim, tr.env
    cwd = os.getcwd()
    os.chdir(workdir)
    try:
        T.wrap_algorithm(tr, sim.scheduler.algorithm)
        T.CURRENT = tr
        try:
            with quiet():
                df, tasks = sim.start()
            ev = sim.monitor.events
            out = {'status': 'completed', 'df': table_digest(df), 'tasks': table_digest(tasks),
                   'events': table_digest(ev), 'end': env.now}
        except T.StepBudgetExceeded:
            out = {'status': 'budget'}
        except Exception as e:
            out = {'status': 'raised', 'sig': f"{type(e).__name__}@{T.repo_frame(e)}"}
        finally:
            T.CURRENT = None
        out['ready_ge2'] = tr.counts.get('rounds_ready_ge2', 0)
        return out
    finally:
        os.chdir(cwd)


def run_once(sc, workdir):
    return _run(_build(sc, workdir), workdir)


def run_shared_delay_model(sc, workdir):
    """two simulations of the scenario, one after the other, that are handed the SAME DelayModel object (an experiment loop
    that builds its delay model once); the second one's outputs are returned"""
    from vt.runner import make_delay_model
    dm = make_delay_model(sc.get('delay_model'))
    _run(_build(sc, workdir, dm=dm), workdir)
    return _run(_build(sc, workdir, dm=dm), workdir)


class _SlowClock:
    """stands in for the `time` module inside topsim's modules: every reading of the wall clock is 3 s later than the last"""

    def __init__(self, real):
        self._real = real
        self._now = real.time()

    def time(self):
        self._now += 3.0
        return self._now

    def __getattr__(self, name):
        return getattr(self._real, name)


def run_with_slow_wall_clock(sc, workdir):
    """the same run on a 'host' whose wall clock jumps 3 s between any two readings: apart from the *-algtime columns nothing
    may change (outputs depend on the configuration, not on how fast the machine is)"""
    import sys
    import time as real_time
    patched = []
    for name, mod in list(sys.modules.items()):
        if name.startswith('topsim.') and getattr(mod, 'time', None) is real_time:
            mod.time = _SlowClock(real_time)
            patched.append(mod)
    try:
        return run_once(sc, workdir)
    finally:
        for mod in patched:
            mod.time = real_time


def run_with_verbose_logging(sc, workdir):
    """the same run with the `topsim` loggers at INFO level (records discarded): what is logged must not influence what
    is simulated"""
    import logging
    lg = logging.getLogger('topsim')
    old_level, old_prop = lg.level, lg.propagate
    h = logging.NullHandler()
    lg.addHandler(h)
    lg.setLevel(logging.INFO)
    lg.propagate = False
    try:
        return run_once(sc, workdir)
    finally:
        lg.setLevel(old_level)
        lg.propagate = old_prop
        lg.removeHandler(h)


def run_interleaved(sc, other, workdir):
    """the scenario's simulation is built, then another simulation is built AND run in the same interpreter, and only then
    the first one runs: its outputs must not depend on that"""
    tr = _build(sc, workdir)
    run_once(other, workdir + '_b')
    return _run(tr, workdir)


def main():
    workdir = sys.argv[1]
    for line in sys.stdin:
        line = line.strip()
        if not line:
            continue
        msg = json.loads(line)
        sc = msg['sc'] if 'sc' in msg and 'machines' not in msg else msg
        try:
            for decoy in (msg.get('decoys') or []) if 'machines' not in msg else []:
                run_once(decoy, workdir)          # different history in this interpreter; result discarded
            a = run_once(sc, workdir)
            b = run_once(sc, workdir)
            res = {'first': a, 'second': b, 'hashseed': os.environ.get('PYTHONHASHSEED')}
            if msg.get('interleave') and 'machines' not in msg:
                res['third'] = run_interleaved(sc, msg['interleave'], workdir)
            if msg.get('verbose_log') and 'machines' not in msg:
                res['sixth'] = run_with_verbose_logging(sc, workdir)
            if msg.get('slow_clock') and 'machines' not in msg:
                res['fifth'] = run_with_slow_wall_clock(sc, workdir)
            if msg.get('shared_dm') and 'machines' not in msg and sc.get('delay_model'):
                res['fourth'] = run_shared_delay_model(sc, workdir)
        except Exception as e:       # harness problem
            import traceback
            res = {'harness_error': traceback.format_exc()}
        sys.stdout.write(json.dumps(res) + '\n')
        sys.stdout.flush()


if __name__ == '__main__':
    main()
