"""User-side extension points supplied by the harness: a static planner, delay injection, an
adversarial scheduling algorithm.  All of them go through topsim's documented ABCs
(topsim.algorithms.planning.Planning, topsim.algorithms.scheduling.Scheduling)."""
import copy
import json
import sys

import networkx as nx

from topsim.algorithms.planning import Planning
from topsim.algorithms.scheduling import Scheduling
from topsim.core.delay import DelayModel
from topsim.core.planner import WorkflowPlan, WorkflowStatus
from topsim.core.task import Task, TaskStatus
from topsim.user.plan.batch_planning import BatchPlanning


def read_graph(path):
    with open(path) as f:
        cfg = json.load(f)
    g = cfg['graph']
    try:
        return nx.readwrite.node_link_graph(g, edges='edges')
    except TypeError:      # older networkx: no 'edges' keyword, reads 'links'
        return nx.readwrite.node_link_graph(g)


class ListPlanning(Planning):
    """Static list planner with the same output shape as SHADOWPlanning.generate_plan
    (which cannot be imported on this image): every task gets est/eft and a machine id; the
    task->machine map is an input (self.choice[(obs name, node id)] = machine index)."""

    def __init__(self, algorithm='list', delay_model=None, choice=None, abs_est=None):
        super().__init__(algorithm, delay_model)
        self.choice = choice or {}
        self.abs_est = abs_est      # None: workflow est as Planning._calc_workflow_est; int: clock + duration + slack

    def __str__(self):
        return 'ListPlanning'

    def to_df(self):
        pass

    def generate_plan(self, clock, cluster, buffer, observation, max_ingest):
        graph = read_graph(observation.workflow)
        est_wf = self._calc_workflow_est(observation, buffer)
        if self.abs_est is not None:
            est_wf = int(clock + observation.duration + self.abs_est)
        machines = cluster.machines
        free_at = {m.id: 0 for m in machines}
        fin, alloc, mapping, tasks = {}, {}, {}, []
        order = list(nx.topological_sort(graph))
        for i, n in enumerate(order):
            ch = self.choice.get((observation.name, n))
            m = machines[(ch if ch is not None else i) % len(machines)]
            comp = graph.nodes[n]['comp']
            td = graph.nodes[n].get('task_data', 0)
            dur = max(int(comp / m.cpu), int(td / m.bandwidth))
            ready = 0
            for p in graph.predecessors(n):
                t = fin[p]
                if alloc[p] != m.id:
                    t += int(graph.edges[p, n]['transfer_data'] / m.bandwidth)
                ready = max(ready, t)
            s = max(ready, free_at[m.id])
            f = s + dur
            free_at[m.id] = f
            fin[n] = f
            alloc[n] = m.id
            tid = self._create_observation_task_id(n, observation, clock)
            preds = [self._create_observation_task_id(p, observation, clock)
                     for p in graph.predecessors(n)]
            ec = {self._create_observation_task_id(p, observation, clock):
                  graph.edges[p, n]['transfer_data'] for p in graph.predecessors(n)}
            if self.abs_est is not None:
                # est / eft on the simulation clock too (workflow est + planned offset, eft with the same slack): a task that
                # runs as planned is then NOT late, so only injected delays flag tasks
                t = Task(tid, est_wf + s, est_wf + f + self.abs_est + 3, m.id, preds, comp, td, ec, copy.copy(self.delay_model), gid=n)
            else:
                t = Task(tid, s, f, m.id, preds, comp, td, ec, copy.copy(self.delay_model), gid=n)
            mapping[n] = t
            tasks.append(t)
        g2 = nx.relabel_nodes(graph, mapping)
        tasks.sort(key=lambda x: x.est)
        eo = [self._create_observation_task_id(n, observation, clock) for n in order]
        return WorkflowPlan(observation.name, est_wf, max(fin.values()) if fin else 0, tasks, eo,
                            WorkflowStatus.SCHEDULED, max_ingest, g2)


class FixedExtra(DelayModel):
    """fault injection: lengthen a task by a fixed number of timesteps"""

    def __init__(self, extra):
        super().__init__(1.0, 'normal', DelayModel.DelayDegree.LOW, seed=0)
        self.extra = extra

    def generate_delay(self, task_runtime, n=100):
        return task_runtime + self.extra


def _inject(plan, observation, delays):
    for t in plan.tasks:
        extra = delays.get(f"{observation.name}:{t.graph_id}", 0)
        if extra:
            t.delay = FixedExtra(extra)
    return plan


class DelayedBatchPlanning(BatchPlanning):
    def __init__(self, algorithm, delay_model=None, delays=None):
        super().__init__(algorithm, delay_model)
        self.delays = delays or {}

    def generate_plan(self, clock, cluster, buffer, observation, max_ingest):
        plan = super().generate_plan(clock, cluster, buffer, observation, max_ingest)
        return _inject(plan, observation, self.delays)


class DelayedListPlanning(ListPlanning):
    def __init__(self, algorithm='list', delay_model=None, choice=None, delays=None, abs_est=None):
        super().__init__(algorithm, delay_model, choice, abs_est)
        self.delays = delays or {}

    def generate_plan(self, clock, cluster, buffer, observation, max_ingest):
        plan = super().generate_plan(clock, cluster, buffer, observation, max_ingest)
        return _inject(plan, observation, self.delays)


class Adversary(Scheduling):
    """A user scheduling algorithm driven by a generated decision list.  It keeps precedence legal
    (the scheduler does not police it) and reports FINISHED honestly, but proposes *any* cluster
    machine: free, busy with a task, busy with ingest, reserved for another observation, or already
    proposed in this round; it may re-propose tasks that were already submitted and may make its
    own reservations through the public Cluster.provision_batch_resources.  When the decision list
    is exhausted it continues in honest mode (first free machine), so that runs can complete."""

    def __init__(self, program):
        super().__init__()
        self.name = 'Adversary'
        self.program = list(program) or [0]
        self.pos = 0
        self.proposals = []      # (clock, task id, machine id) for every proposal returned
        self.topups = 0          # reservations extended by a second provisioning call
        self.early_releases = 0  # reservations given back before the workflow's tasks have ended

    def __repr__(self):
        return 'Adversary'

    def to_df(self):
        pass

    def _next(self):
        if self.pos < len(self.program):
            v = self.program[self.pos]
            self.pos += 1
            return v
        return None

    def run(self, cluster, clock, workflow_plan, existing_schedule, task_pool):
        allocations = copy.copy(existing_schedule)
        d = self._next()
        if d is not None and d % 5 == 2 and not cluster.is_observation_provisioned(workflow_plan.id):
            free = len(cluster.get_available_resources())
            if free > 0:
                cluster.provision_batch_resources(1 + d % free, workflow_plan.id)
        elif d is not None and d % 16 == 11 and cluster.is_observation_provisioned(workflow_plan.id):
            # the reservation is given back early, possibly while one of this workflow's tasks still runs on a reserved machine
            cluster.release_batch_resources(workflow_plan.id)
            self.early_releases += 1
        elif d is not None and d % 8 == 7 and cluster.is_observation_provisioned(workflow_plan.id):
            # elastic top-up of an existing reservation (Cluster.provision_batch_resources appends to it)
            free = len(cluster.get_available_resources())
            if free > 0:
                cluster.provision_batch_resources(1 + d % free, workflow_plan.id)
                self.topups += 1
        handed = []
        for task in sorted(workflow_plan.tasks, key=lambda t: str(t.id)):
            preds = list(workflow_plan.graph.predecessors(task))
            if not all(cluster.is_task_finished(p) for p in preds):
                continue
            d = self._next()
            if task.task_status is not TaskStatus.UNSCHEDULED:
                # re-proposing a submitted task: only on an explicit (rare) decision
                if d is not None and d % 32 == 13:
                    allocations[task] = cluster.machines[d % len(cluster.machines)]
                continue
            if d is None:
                # honest mode
                own = cluster.get_idle_resources(workflow_plan.id)
                pool = [m for m in (own if cluster.is_observation_provisioned(workflow_plan.id)
                                    else cluster.get_available_resources()) if m not in handed]
                if pool:
                    allocations[task] = pool[0]
                    handed.append(pool[0])
                elif task in allocations:
                    del allocations[task]
                continue
            if d % 4 == 0:
                allocations.pop(task, None)       # withdraw / do not propose this round
                continue
            m = cluster.machines[(d // 4) % len(cluster.machines)]
            if d % 8 == 1:
                # deliberately aim at a machine that is neither free nor busy, i.e. reserved - through
                # public queries only - and not part of this workflow's own reservation
                free_ = cluster.get_available_resources()
                own = cluster.get_idle_resources(workflow_plan.id)
                cand = [x for x in cluster.machines if x not in free_ and not cluster.is_occupied(x) and x not in own]
                if cand:
                    m = cand[(d // 8) % len(cand)]
            allocations[task] = m
            handed.append(m)
        if len(workflow_plan.tasks) == 0:
            workflow_plan.status = WorkflowStatus.FINISHED
            # Cluster's documentation: reservations are cleaned up by the Scheduler when the workflow has finished
            # "and requires no additional code on behalf of the user" - half of the programs rely on that
            if self.program[0] % 2:
                cluster.release_batch_resources(workflow_plan.id)
        for t, m in allocations.items():
            self.proposals.append((clock, t.id, m.id))
        return allocations, workflow_plan.status, task_pool


def batch_literal():
    # BatchPlanning compares its algorithm name with `is 'batch'`
    return sys.intern('batch')
