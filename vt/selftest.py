"""Sensitivity self-test:  python -m vt.selftest [--only NAME_SUBSTR] [--props C05,C07] [--baseline] [--jobs N]

For every entry of mutants/catalogue.py: copy /repo's topsim + test directories to a scratch
directory outside /repo and /verif, apply the mutation, (optionally) run the repository's baseline
tests on the copy, run the quick check of each property expected to catch it with TOPSIM_REPO
pointing at the copy and the corpus replay switched off, and record whether it exited 1.
Scratch copies are removed as soon as each mutant is done.  Writes mutants/RESULTS.json."""
import argparse
import json
import os
import shutil
import subprocess
import sys
import tempfile
import time

VERIF = os.path.dirname(os.path.dirname(os.path.abspath(__file__)))
REPO = os.environ.get('TOPSIM_REPO', '/repo')
BASELINE_TESTS = None


def baseline_names():
    global BASELINE_TESTS
    if BASELINE_TESTS is None:
        try:
            BASELINE_TESTS = json.load(open('/root/.vp/BASELINE.json'))['stable_pass']
        except Exception:
            BASELINE_TESTS = []
    return BASELINE_TESTS


def make_copy(entry):
    d = tempfile.mkdtemp(prefix='vt_mut_')
    for sub in ('topsim', 'test'):
        shutil.copytree(os.path.join(REPO, sub), os.path.join(d, sub),
                        ignore=shutil.ignore_patterns('__pycache__', '*.pyc'))
    for (file, old, new) in [(entry['file'], entry['old'], entry['new'])] + [tuple(x) for x in entry.get('more', [])]:
        p = os.path.join(d, file)
        s = open(p).read()
        n = s.count(old)
        if n != 1:
            shutil.rmtree(d, ignore_errors=True)
            raise ValueError(f"{entry['name']}: 'old' occurs {n} times in {file}")
        open(p, 'w').write(s.replace(old, new))
        subprocess.run([sys.executable, '-m', 'py_compile', p], check=True, capture_output=True)
    return d


def run_baseline(d):
    """returns (#passed of the 30 stable tests, total)"""
    r = subprocess.run([sys.executable, '-m', 'pytest', '-q', '-p', 'no:cacheprovider', '--timeout=900',
                        '--continue-on-collection-errors', '-rA'], cwd=d, capture_output=True, text=True,
                       env=dict(os.environ, PYTHONPATH=d, PYTHONDONTWRITEBYTECODE='1'))
    passed = set()
    for line in r.stdout.splitlines():
        if line.startswith('PASSED '):
            nm = line.split()[1]                       # test/test_x.py::Class::test
            mod, rest = nm.split('::', 1)
            passed.add(mod.replace('/', '.').replace('.py', '') + '.' + rest)
    want = baseline_names()
    ok = sum(1 for w in want if w.replace('::', '.', 1) in {p.replace('::', '.') for p in passed} or w in passed
             or w.replace('::', '.') in {p.replace('::', '.') for p in passed})
    return ok, len(want)


def run_check(prop, d, seed, tier='quick'):
    out = tempfile.mkdtemp(prefix='vt_mutout_')
    env = dict(os.environ, TOPSIM_REPO=d, VT_OUT=out, VERIF_SEED=str(seed))
    t0 = time.time()
    r = subprocess.run([os.path.join(VERIF, 'check'), prop, '--tier', tier, '--no-corpus'], capture_output=True,
                       text=True, env=env, cwd=VERIF)
    first = ''
    for line in r.stdout.splitlines():
        if line.strip().startswith(prop + '/') or line.startswith('VIOLATION'):
            first = line.strip()[:220]
            break
    shutil.rmtree(out, ignore_errors=True)
    return r.returncode, first, round(time.time() - t0, 1), (r.stderr[-400:] if r.returncode == 2 else '')


def main():
    ap = argparse.ArgumentParser()
    ap.add_argument('--only', default='')
    ap.add_argument('--props', default='')
    ap.add_argument('--baseline', action='store_true')
    ap.add_argument('--seed', type=int, default=1)
    ap.add_argument('--out', default=os.path.join(VERIF, 'mutants', 'RESULTS.json'))
    a = ap.parse_args()
    sys.path.insert(0, os.path.join(VERIF, 'mutants'))
    import catalogue
    want_props = set(filter(None, a.props.split(',')))
    results = []
    if os.path.exists(a.out) and (a.only or want_props):
        results = json.load(open(a.out))['results']
    for e in catalogue.M:
        if a.only and a.only not in e['name']:
            continue
        props = [p for p in e['props']]
        if want_props and not (want_props & {p.lstrip('~') for p in props}):
            continue
        try:
            d = make_copy(e)
        except Exception as ex:
            print(f"{e['name']}: CANNOT APPLY: {ex}")
            results = [r for r in results if r['name'] != e['name']] + [{'name': e['name'], 'error': str(ex)}]
            continue
        try:
            rec = {'name': e['name'], 'file': e['file'], 'note': e['note'], 'expected': props, 'checks': {}}
            if a.baseline:
                ok, n = run_baseline(d)
                rec['baseline_pass'] = f"{ok}/{n}"
            for p in props:
                pid = p.lstrip('~')
                if want_props and pid not in want_props:
                    continue
                rc, first, wall, err = run_check(pid, d, a.seed)
                rec['checks'][pid] = {'exit': rc, 'first': first, 'wall_s': wall, 'expected_detect': not p.startswith('~')}
                if err:
                    rec['checks'][pid]['stderr'] = err
                print(f"{e['name']:45s} {pid} exit={rc} {wall:5.1f}s {rec.get('baseline_pass', '')} {first[:110]}", flush=True)
            results = [r for r in results if r['name'] != e['name']] + [rec]
        finally:
            shutil.rmtree(d, ignore_errors=True)
        with open(a.out, 'w') as f:
            json.dump({'seed': a.seed, 'results': results}, f, indent=1)
    det = sum(1 for r in results for c in r.get('checks', {}).values() if c['expected_detect'] and c['exit'] == 1)
    tot = sum(1 for r in results for c in r.get('checks', {}).values() if c['expected_detect'])
    print(f"detected {det}/{tot} (mutant, property) pairs expected to be caught")


if __name__ == '__main__':
    main()
