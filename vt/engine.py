"""Shard execution (seeded Hypothesis runs), failure collection, known-finding filtering, evidence."""
import hashlib
import json
import os
import time
import traceback

import hypothesis
from hypothesis import HealthCheck, Phase, given, settings

from .scenario import canonical

VERIF = os.path.dirname(os.path.dirname(os.path.abspath(__file__)))
KNOWN_FILE = os.path.join(VERIF, 'known-findings.txt')


class HarnessError(Exception):
    pass


def shard_seed(seed, prop, shard, part=''):
    h = hashlib.sha256(f"{seed}:{prop}:{shard}:{part}".encode()).hexdigest()
    return int(h[:12], 16)


def case_hash(case):
    if not isinstance(case, str):
        case = json.dumps(case, sort_keys=True, separators=(',', ':'), default=str)
    return hashlib.sha1(case.encode()).hexdigest()[:16]


def load_known(prop):
    """known: property=C05 id=KF1 sig=<sig>[|<sig>...] <what fails>   /   fixed: property=.. <commit> <what>"""
    known = []
    if not os.path.exists(KNOWN_FILE):
        return known
    for line in open(KNOWN_FILE):
        line = line.strip()
        if not line.startswith('known:'):
            continue
        fields = dict(f.split('=', 1) for f in line.split()[1:4])
        if fields.get('property') != prop:
            continue
        text = line.split(None, 4)[4] if len(line.split(None, 4)) > 4 else ''
        known.append({'id': fields['id'], 'sigs': fields['sig'].split('|'), 'text': text})
    return known


class ShardState:
    """accumulates what one shard (or the main process) saw"""

    def __init__(self, prop, tier, known=None, shrink_box=60.0, stop_path=None):
        self.prop = prop
        self.tier = tier
        self.known = known if known is not None else load_known(prop)
        self.evaluations = 0
        self.nontrivial = set()
        self.classes = {}
        self.samples = []
        self._sample_keys = set()
        self.failures = []        # (case, [violations])
        self.known_hits = {}
        self.aborted = 0
        self.excluded = 0
        self.budget_exhausted = False
        self.shrink_box = shrink_box
        self.shrink_deadline = None
        self.stop_path = stop_path
        self.harness_errors = []
        self.recent = []          # the last few cases run in this process before the current one
        self.extra = {}
        self.t0 = time.time()

    def count(self, key, n=1):
        self.classes[key] = self.classes.get(key, 0) + n

    def merge_counts(self, d, prefix=''):
        for k, v in d.items():
            self.count(prefix + k, v)

    def sample(self, s, cap=4):
        # keep the first sample and the most recent distinct ones (Hypothesis starts with tiny cases)
        key = json.dumps(s, sort_keys=True, default=str)
        if key in self._sample_keys:
            return
        self._sample_keys.add(key)
        if len(self.samples) < cap:
            self.samples.append(s)
        else:
            self.samples = [self.samples[0]] + self.samples[2:] + [s]

    def is_known(self, sig):
        for k in self.known:
            if sig in k['sigs']:
                return k['id']
        return None

    def split_known(self, violations):
        """violations carry 'sig'; returns the unlisted ones, counts the listed ones"""
        unlisted = []
        for v in violations:
            kid = self.is_known(v.get('sig', v['part']))
            if kid:
                self.known_hits[kid] = self.known_hits.get(kid, 0) + 1
            else:
                unlisted.append(v)
        return unlisted

    def result(self):
        return {'evaluations': self.evaluations, 'nontrivial': sorted(self.nontrivial),
                'classes': self.classes, 'samples': self.samples,
                'failures': self.failures[:50], 'known_hits': self.known_hits, 'aborted': self.aborted,
                'excluded': self.excluded, 'budget_exhausted': self.budget_exhausted,
                'harness_errors': self.harness_errors[:3], 'extra': self.extra,
                'wall_s': time.time() - self.t0}


def should_stop(state):
    return bool(state.stop_path and os.path.exists(state.stop_path))


def run_given(state, strategy, body, n, seed_int, shrink=True):
    """Seeded Hypothesis run of `body(case, state) -> [unlisted violations]` over `strategy`.
    Every failing case is recorded in state.failures; shrinking is time-boxed."""
    phases = [Phase.generate] + ([Phase.shrink] if shrink else [])

    @hypothesis.seed(seed_int)
    @settings(max_examples=max(1, n), database=None, deadline=None, derandomize=False,
              report_multiple_bugs=False, phases=phases, print_blob=False,
              suppress_health_check=list(HealthCheck))
    @given(strategy)
    def test(case):
        if state.shrink_deadline is not None and time.time() > state.shrink_deadline:
            return
        if not state.failures and should_stop(state):
            return
        try:
            bad = body(case, state)
        except HarnessError:
            raise
        except AssertionError:
            raise
        except Exception as e:       # error in harness code -> not a violation
            state.harness_errors.append(traceback.format_exc())
            raise HarnessError(str(e))
        context = list(state.recent)
        state.recent = (state.recent + [case])[-6:]
        if bad:
            # the cases run just before are kept: a failure that does not reproduce on its own may
            # depend on state the code under test carries from one run to the next in a process
            state.failures.append((case, bad, context))
            if state.shrink_deadline is None:
                state.shrink_deadline = time.time() + state.shrink_box
                if state.stop_path:
                    try:
                        open(state.stop_path, 'w').close()
                    except OSError:
                        pass
            raise AssertionError(bad[0]['msg'])
    try:
        test()
    except HarnessError:
        pass
    except AssertionError:
        pass
    except BaseException as e:     # Flaky after an expired shrink box, etc.
        if not state.failures and not isinstance(e, (KeyboardInterrupt, SystemExit)):
            if 'Flaky' not in type(e).__name__ and 'Unsatisfiable' not in type(e).__name__:
                state.harness_errors.append(traceback.format_exc())
        if isinstance(e, (KeyboardInterrupt, SystemExit)):
            raise
    return state


def run_machine(state, machine_cls, n, steps, seed_int):
    from hypothesis.stateful import run_state_machine_as_test
    st_ = settings(max_examples=max(1, n), stateful_step_count=steps, database=None, deadline=None,
                   derandomize=False, report_multiple_bugs=False, print_blob=False,
                   suppress_health_check=list(HealthCheck))
    try:
        run_state_machine_as_test(hypothesis.seed(seed_int)(machine_cls), settings=st_)
    except AssertionError:
        pass
    except HarnessError:
        pass
    except BaseException as e:
        if isinstance(e, (KeyboardInterrupt, SystemExit)):
            raise
        if not state.failures and 'Flaky' not in type(e).__name__:
            state.harness_errors.append(traceback.format_exc())
    return state


def smallest_failure(failures):
    return min(failures, key=lambda f: len(json.dumps(f[0], default=str)))
