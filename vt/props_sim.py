"""Simulation-level property specs: generator profile, oracle, non-triviality rule, classes."""
import json

from hypothesis import strategies as st

from . import oracles as O
from .engine import case_hash
from .runner import run_scenario
from .scenario import classify, scenarios, serial_bound

SIZES = {
    'quick': dict(max_machines=6, max_obs=4, max_nodes=6),
    'thorough': dict(max_machines=10, max_obs=6, max_nodes=12),
}


def mix(*weighted):
    """weighted choice between strategies, drawn inside Hypothesis"""
    table = []
    for w, s in weighted:
        table += [s] * w
    return st.integers(0, len(table) - 1).flatmap(lambda i: table[i])


def crowd(kw, **extra):
    """several sub-array observations falling due together on a cluster with a generous ingest limit:
    simultaneous ingests, same-step starts, machines contended between ingest and workflows"""
    a = dict(min_obs=2, start_gaps=(0, 0, 0, 1, 2, 3), overlap=True, modes=('roomy',), max_duration=8, unsorted='maybe',
             long_durations=True, twins=True)
    a.update(kw)
    a.update(extra)
    return scenarios(**a)


def swarm(kw, **extra):
    """swarm testing: the generator's own knobs are drawn per case, so that combinations of families occur that no
    hand-written family fixes (e.g. unsorted + long durations + binding ingest limit + back-to-back)"""
    gapsets = [(0, 0, 0, 1), (0, 1, 2, 3), (1, 2, 3), (0, 0, 1, 2, 5, 10), (2, 5, 10), (0,)]

    def build(t):
        ov, lb, un, ld, bb, fm, pp, gi, md, mo, ae, zr, on, ut = t
        a = dict(overlap=ov, limit_binds=lb and not ov, unsorted=un, long_durations=ld, b2b=bb, twins=not bb, few_machines=fm,
                 piled_plans=pp, start_gaps=gapsets[gi], max_duration=md, min_obs=mo, abs_est=ae, zero_rate=zr, odd_names=on, units=ut, frac_start=ut,
                 modes=('roomy',) if (ov or lb) else ('roomy', 'band'))
        a.update(kw)
        a.update(extra)
        a['min_obs'] = min(a['min_obs'], a.get('max_obs', 4))
        return scenarios(**a)
    b = st.booleans()
    return st.tuples(b, b, b, b, b, b, b, st.integers(0, len(gapsets) - 1), st.sampled_from([2, 3, 6, 10]),
                     st.integers(1, 3), b, b, b, b).flatmap(build)


def tight(kw, **extra):
    """short sub-array observations following each other within a few steps, plan possibly not in start order:
    begin and finish transitions of different observations fall into the same telescope pass"""
    a = dict(min_obs=2, start_gaps=(1, 2, 3), overlap=True, modes=('roomy',), max_duration=3, unsorted='maybe')
    a.update(kw)
    a['max_obs'] = min(a.get('max_obs', 4), 4)
    a.update(extra)
    return scenarios(**a)


def limited(kw, **extra):
    """plenty of machines and arrays but a small ingest-machine limit that overlapping ingests run into"""
    a = dict(min_obs=3, limit_binds=True, modes=('roomy',), start_gaps=(0, 1, 2, 3), max_duration=10, b2b=True)
    a.update(kw)
    a['max_machines'] = max(a.get('max_machines', 6), 6)
    a.update(extra)
    return scenarios(**a)


def brief(sc):
    """short description of a scenario for evidence samples"""
    return {'alg': sc['alg']['kind'], 'mode': sc['mode'], 'machines': len(sc['machines']),
            'unit': sc.get('unit', 'seconds'),
            'obs': [{'name': o['name'], 'start': o['start'], 'duration': o['duration'], 'rate': o['rate'],
                     'demand': o['demand'], 'ingest': o['ingest'], 'nodes': len(o['wf']['nodes']),
                     'edges': len(o['wf']['edges'])} for o in sc['obs']],
            'hot': sc['hot'], 'cold': sc['cold'], 'delays': len(sc.get('delays') or {})}


class SimSpec:
    prop = None
    oracle_props = None
    cases = {'quick': 320, 'thorough': 6400}
    rule = ''
    level_text = ''
    assumptions = ["SimPy's deterministic event order (time, priority, insertion id) is the only schedule explored; "
                   "orders SimPy cannot produce are outside the property's quantifier",
                   "plan-following pairings use the harness's ListPlanning (SHADOWPlanning cannot be imported on this image); "
                   "topsim/user/plan/static_planning.py is not executed"]
    adversary_allowed_abort = False

    def gen_kwargs(self, tier):
        return dict(SIZES[tier])

    def strategy(self, tier):
        return scenarios(**self.gen_kwargs(tier))

    def run(self, sc):
        return run_scenario(sc)

    def violations(self, tr):
        out = []
        for p in (self.oracle_props or [self.prop]):
            out += [v for v in O.ORACLES[p](tr) if v['prop'] == self.prop]
        return out

    def sig(self, v, tr):
        return v['part']

    def nontrivial(self, tr):
        return True

    def classes(self, tr):
        return {}

    def summary(self, tr):
        return {'scenario': brief(tr.sc), 'status': tr.status, 'end_clock': tr.final_now}

    def aborted(self, tr):
        return tr.status != 'completed'

    def body(self, sc, state):
        tr = self.run(sc)
        state.evaluations += 1
        state.merge_counts(classify(sc))
        state.count(f"status={tr.status}")
        if tr.status == 'raised':
            state.count(f"raised:{tr.exc_sig}")
        viol = self.violations(tr)
        for v in viol:
            v['sig'] = self.sig(v, tr)
        unlisted = state.split_known(viol)
        if self.aborted(tr):
            state.aborted += 1
        for k, v in self.classes(tr).items():
            if v:
                state.count(k, v if isinstance(v, int) and not isinstance(v, bool) else 1)
        if self.nontrivial(tr):
            state.nontrivial.add(case_hash(sc))
            state.sample(self.summary(tr))
        return unlisted

    # replay of one case outside Hypothesis
    def replay_case(self, sc, state):
        return self.body(sc, state)

    def run_shard(self, state, tier, seed, shard, nshards, cases=None):
        from .engine import run_given, shard_seed
        total = cases or self.cases[tier]
        n = max(1, total // nshards)
        run_given(state, self.strategy(tier), self.body, n, shard_seed(seed, self.prop, shard))


# ----------------------------------------------------------------------------------------- C05

class C05(SimSpec):
    prop = 'C05'
    cases = {'quick': 640, 'thorough': 6400}
    rule = ("scenario strategy, feasible by construction: buffer modes roomy / serialising band / band-overlap, families crowd "
            "(observations due together), limited (ingest limit binds), tight (begin and finish in one telescope pass), plans not in "
            "start order, injected delays; ~10% in-region tiering probe (known findings); non-trivial = at least one observation "
            "start was refused by the capacity check (buffer or machines) or one batch provisioning attempt was refused, and the run "
            "was judged against the bound; distinct = distinct canonical scenario JSON")

    def strategy(self, tier):
        kw = self.gen_kwargs(tier)
        main = scenarios(delays=True, **kw)
        # several observations falling due together while machines are busy (trigger class of D2)
        crowd = scenarios(min_obs=3, start_gaps=(0, 0, 0, 1), overlap=True, modes=('roomy',), delays=True, **kw)
        crowd2 = scenarios(min_obs=3, start_gaps=(0, 0, 1), few_machines=True, **kw)
        probe = scenarios(modes=('tiering',), **kw)
        return mix((3, main), (2, crowd), (1, crowd2), (1, limited(kw, delays=True)), (2, tight(kw)), (2, swarm(kw, delays=True)),
                   (1, scenarios(unsorted=True, min_obs=2, delays=True, **kw)),
                   (1, scenarios(modes=('bandov',), delays=True, **kw)), (1, probe))

    def sig(self, v, tr):
        if tr.tiering_entered:
            if v['part'] == 'raised':
                return f"tiering_entered+{tr.exc_sig}"
            if v['part'] == 'hang':
                b = tr.sim.buffer
                stranded = bool(b.cold[0].observations['stored'] or b.cold[0].observations['transfer']
                                or b.hot[0].observations['transfer'])
                return "tiering_entered+hang_stranded_in_cold" if stranded else "tiering_entered+hang_other"
            return f"tiering_entered+{v['part']}"
        if v['part'] == 'raised':
            return f"raised+{tr.exc_sig}"
        return v['part']

    def nontrivial(self, tr):
        c = tr.counts
        refused_batch = any(r['status'] != 5 and not r['proposals'] and r['ready'] > 0 and r['free'] == 0 for r in tr.algo_runs)
        return bool(c.get('capacity_refusals') or refused_batch)

    def classes(self, tr):
        c = tr.counts
        out = {k: c.get(k, 0) for k in ('buffer_refusals', 'machine_refusals', 'buffer_refusal_while_machines_free')}
        out['tiering_entered'] = int(tr.tiering_entered)
        if tr.sc['mode'] == 'tiering':
            out['in_region_probe'] = 1
        if tr.status == 'completed':
            ratio = tr.final_now / max(1, serial_bound(tr.sc))
            out[f"clock_over_bound_decile={min(10, int(ratio * 10))}"] = 1
        return out

    def summary(self, tr):
        s = super().summary(tr)
        s['serial_bound'] = serial_bound(tr.sc)
        s['refusals'] = tr.counts.get('capacity_refusals', 0)
        return s


SPECS = {}


def register(cls):
    SPECS[cls.prop] = cls()
    return cls


register(C05)


# ----------------------------------------------------------------------------------------- C01

class C01(SimSpec):
    prop = 'C01'
    cases = {'quick': 640, 'thorough': 6400}
    rule = ("scenarios x {4 shipped pairings with injected delays, Adversary decision programs}; few machines relative to "
            "ready tasks; non-trivial = at least one scheduling round with more ready tasks than free machines, or at "
            "least one illegal proposal (busy-task / busy-ingest / duplicate / foreign-reserved / resubmission) made by the algorithm; "
            "distinct = distinct canonical scenario JSON")
    level_text = ("exploration: in SimPy event order, per machine at most one do_work body and one cluster allocation "
                  "are ever active, every do_work lies inside the allocation of the same (task, machine), ingest only gets free "
                  "machines; adversarial proposals are either skipped or the run raises - never executed")

    def strategy(self, tier):
        kw = self.gen_kwargs(tier)
        shipped = scenarios(delays=True, few_machines=True, min_obs=2, **kw)
        shipped2 = scenarios(delays=True, **kw)
        adv = scenarios(adversary=True, delays=True, **kw)
        advfew = scenarios(adversary=True, few_machines=True, min_obs=2, **kw)
        return mix((2, shipped), (2, shipped2), (2, crowd(kw, delays=True)), (2, swarm(kw, delays=True)), (2, adv), (2, advfew),
                   (2, crowd(kw, adversary=True, min_obs=3)), (1, swarm(kw, adversary=True)))

    def aborted(self, tr):
        return tr.status != 'completed' and tr.sc['alg']['kind'] != 'adversary'

    def nontrivial(self, tr):
        c = tr.counts
        return bool(c.get('rounds_more_ready_than_free') or any(k.startswith('illegal_') for k in c))

    def classes(self, tr):
        c = tr.counts
        out = {k: v for k, v in c.items() if k.startswith('illegal_') or k in ('alloc_refused', 'rounds_more_ready_than_free')}
        if tr.sc['alg']['kind'] == 'adversary':
            out[f"adversary_{tr.status}"] = 1
            if tr.status == 'raised':
                out[f"adversary_raised:{tr.exc_sig}"] = 1
        return out

    def summary(self, tr):
        s = super().summary(tr)
        s['illegal'] = {k: v for k, v in tr.counts.items() if k.startswith('illegal_')}
        s['allocations'] = len(tr.allocs)
        s['refused_by_cluster'] = tr.counts.get('alloc_refused', 0)
        return s


# ----------------------------------------------------------------------------------------- C03

class C03(SimSpec):
    prop = 'C03'
    cases = {'quick': 640, 'thorough': 6400}
    rule = ("scenarios (all shipped pairings, heterogeneous bandwidths, zero and non-divisible edge volumes, static plans that "
            "pile successors on the predecessor's machine, injected delays); non-trivial = the executed run has at least one "
            "cross-machine edge with volume > 0 AND at least one same-machine edge; distinct = distinct canonical scenario JSON")
    level_text = ("exploration: for every workflow edge ast(t) >= aft(p), and ast(t) == max(allocation time, "
                  "aft(p) + volume/bandwidth(receiver) over cross-machine predecessors), tolerance 1e-6")

    def strategy(self, tier):
        kw = self.gen_kwargs(tier)
        kw['max_nodes'] = max(kw['max_nodes'], 7)
        return mix((2, scenarios(delays=True, piled_plans=True, **kw)),
                   (1, crowd(kw, delays=True, piled_plans=True)), (1, swarm(kw, delays=True)),
                   (1, scenarios(delays=True, piled_plans=True, few_machines=True, **kw)))

    def nontrivial(self, tr):
        cross, same = O.C03_classes(tr)
        tr._c03 = (cross, same)
        return cross >= 1 and same >= 1

    def classes(self, tr):
        cross, same = getattr(tr, '_c03', None) or O.C03_classes(tr)
        return {'cross_machine_edges_with_volume': cross, 'same_machine_edges': same,
                'transfer_wait_delayed_start': tr.counts.get('transfer_wait_delayed_start', 0)}

    def summary(self, tr):
        s = super().summary(tr)
        s['edges_cross_same'] = list(getattr(tr, '_c03', (0, 0)))
        s['starts_delayed_by_transfer'] = tr.counts.get('transfer_wait_delayed_start', 0)
        return s


# ----------------------------------------------------------------------------------------- C04

def concurrent_workflows(tr):
    iv = sorted((r['alloc_started_at'], r['dequeued_at']) for r in tr.obs.values()
                if r['alloc_started_at'] is not None and r['dequeued_at'] is not None)
    return any(iv[i + 1][0] < iv[i][1] for i in range(len(iv) - 1))


class C04(SimSpec):
    prop = 'C04'
    cases = {'quick': 640, 'thorough': 6400}
    rule = ("scenarios x {shipped pairings, Adversary programs} with injected delays; judged on runs that return from start(); "
            "non-trivial = completed run in which >= 2 workflows were in progress simultaneously, or a completed Adversary run "
            "with >= 1 illegal proposal; distinct = distinct canonical scenario JSON")
    level_text = ("exploration: every observation begun/finished once, every ingest task and workflow node executed exactly "
                  "once, task table has exactly one row per executed task, and on return no allocation/queue entry/reservation "
                  "remains, all machines available, both buffers full")

    def strategy(self, tier):
        kw = self.gen_kwargs(tier)
        return mix((4, scenarios(delays=True, min_obs=2, **kw)), (1, scenarios(delays=True, **kw)),
                   (2, crowd(kw, delays=True)), (1, tight(kw)), (1, scenarios(unsorted=True, min_obs=2, delays=True, **kw)),
                   (2, swarm(kw, delays=True)), (3, scenarios(adversary=True, delays=True, **kw)), (1, swarm(kw, adversary=True)),
                   # coarser timestep units with observation lengths that are not whole numbers of steps; observations without data
                   (1, scenarios(frac_duration=True, zero_rate=True, units=True, modes=('roomy',), delays=True, **kw)))

    def aborted(self, tr):
        return tr.status != 'completed' and tr.sc['alg']['kind'] != 'adversary'

    def nontrivial(self, tr):
        if tr.status != 'completed':
            return False
        if tr.sc['alg']['kind'] == 'adversary':
            return any(k.startswith('illegal_') for k in tr.counts)
        return concurrent_workflows(tr)

    def classes(self, tr):
        out = {}
        if tr.status == 'completed':
            out['completed_concurrent_workflows'] = int(concurrent_workflows(tr))
        if tr.sc['alg']['kind'] == 'adversary':
            out[f"adversary_{tr.status}"] = 1
        return out

    def summary(self, tr):
        s = super().summary(tr)
        s['executed_tasks'] = len(tr.works)
        s['task_table_rows'] = None if tr.tasks_df is None else len(tr.tasks_df)
        return s


# ----------------------------------------------------------------------------------------- C07

def with_rejection(sc_strategy):
    """rejection class: one observation's data rate exceeds the hot buffer's maximum ingest rate"""
    def mk(pair):
        sc, k = pair
        sc = json.loads(json.dumps(sc))
        idx = k % len(sc['obs'])
        # the limit lies 1, or only a fraction, below that observation's rate (fractional limits arise from unit conversion)
        sc['hot']['rate'] = sc['obs'][idx]['rate'] - (1, 0.4, 1, 0.25, 0.5, 1, 0.4, 1)[k % 8]
        sc['reject'] = [o['name'] for o in sc['obs'] if o['rate'] > sc['hot']['rate']]
        return sc
    return st.tuples(sc_strategy, st.integers(0, 7)).map(mk)


class C07(SimSpec):
    prop = 'C07'
    cases = {'quick': 640, 'thorough': 6400}
    rule = ("scenarios in roomy and serialising-band buffer modes (overlapping observations, different rates/durations, "
            "timestep units, long and short workflows) + ~10% rejection class (an observation whose rate exceeds the hot "
            "buffer's max ingest rate) + ~10% in-region tiering probe; non-trivial = >= 2 observations resident in the hot "
            "buffer simultaneously, or a rejection-class case; distinct = distinct canonical scenario JSON")
    level_text = ("exploration: ledger rebuilt from wrapped deposit/remove calls: after every event 0 <= free <= capacity for both "
                  "tiers and hot used == data of resident observations; each observation deposits exactly its per-step rate in "
                  "exactly `duration` consecutive steps from its start; over-rate ingest raises ValueError before depositing; "
                  "completed runs end with both tiers full")

    def strategy(self, tier):
        kw = self.gen_kwargs(tier)
        main = scenarios(units=True, delays=True, min_obs=2, **kw)
        rej = with_rejection(scenarios(units=True, **kw))
        probe = scenarios(modes=('tiering',), min_obs=2, **kw)
        rej2 = with_rejection(crowd(kw))        # the over-rate observation starts while / right after another one ingests
        return mix((4, main), (2, crowd(kw, delays=True)), (2, swarm(kw, delays=True, units=True)),
                   (1, scenarios(modes=('bandov',), **kw)), (1, rej), (1, rej2), (1, probe),
                   # hot / cold capacities that are not whole numbers (x.25, x.5, x.75: exact in binary)
                   (1, scenarios(frac_cap=True, modes=('roomy',), units=True, delays=True, min_obs=2, **kw)))

    def violations(self, tr):
        out = O.C07(tr)
        rej = tr.sc.get('reject')
        if not rej and tr.status == 'raised' and tr.exc_sig.startswith('ValueError@core/buffer.py:process_incoming_data_stream'):
            out.append(O.V('C07', 'rejected_legal_rate', f"ingest within the hot buffer's max ingest rate was rejected: {tr.exc_msg}"))
        if rej:
            if tr.status == 'completed':
                out.append(O.V('C07', 'rate_not_enforced', f"observations {rej} exceed the hot buffer's max ingest rate but the run completed"))
            elif tr.status == 'raised':
                if not tr.exc_sig.startswith('ValueError@core/buffer.py'):
                    out.append(O.V('C07', 'wrong_rejection', f"over-rate ingest ended with {tr.exc_sig}, expected ValueError from the hot buffer"))
            for name in rej:
                if tr.obs[name]['deposits']:
                    out.append(O.V('C07', 'over_rate_deposited', f"{name} deposited {tr.obs[name]['deposits']} although its rate exceeds the limit"))
        return out

    def sig(self, v, tr):
        if v['part'] == 'hot_negative' and v.get('joint'):
            return 'joint_over_admission'
        if v['part'] == 'hot_negative' and v.get('tier_moves'):
            return 'hot_negative_after_tier_move'
        return v['part']

    def aborted(self, tr):
        return tr.status != 'completed' and not tr.sc.get('reject')

    def nontrivial(self, tr):
        if tr.sc.get('reject'):
            return True
        return tr.extra.get('max_resident', 0) >= 2 or max_resident(tr) >= 2

    def classes(self, tr):
        out = {'max_resident>=2': int(max_resident(tr) >= 2), 'tiering_entered': int(tr.tiering_entered)}
        if tr.sc.get('reject'):
            out['rejection_class'] = 1
            out[f"rejection_{tr.status}"] = 1
        if tr.sc['mode'] == 'tiering':
            out['in_region_probe'] = 1
        return out

    def summary(self, tr):
        s = super().summary(tr)
        s['deposits'] = {n: [list(d) for d in r['deposits'][:6]] for n, r in tr.obs.items()}
        s['reject'] = tr.sc.get('reject')
        s['max_resident'] = max_resident(tr)
        return s


def max_resident(tr):
    """largest number of observations simultaneously resident in the hot buffer (from the ledger)"""
    ev = []
    for r in tr.obs.values():
        if r['deposits']:
            ev.append((r['deposits'][0][0], 1))
            if r['freed_at'] is not None:
                ev.append((r['freed_at'], -1))
    ev.sort(key=lambda x: (x[0], x[1]))
    cur = best = 0
    for _, d in ev:
        cur += d
        best = max(best, cur)
    return best


# ----------------------------------------------------------------------------------------- C08

class C08(SimSpec):
    prop = 'C08'
    cases = {'quick': 640, 'thorough': 6400}
    rule = ("scenarios with >= 2 observations (simultaneous / overlapping / back-to-back / gapped starts, plans not in start order, "
            "array demands above and below the total, ingest demands against a binding limit, roomy / serialising-band / band-overlap "
            "buffers, all shipped pairings); about 70% of the cases get an adaptive second run with one more small observation planned "
            "for the step (-1..+2) at which the first run went completely idle; non-trivial = at least one observation start was "
            "postponed AND at least one observation fell due while the system was idle; distinct = distinct canonical scenario JSON")
    level_text = ("exploration: at each begin_observation the shadow model must show: now >= planned start, enough free arrays, "
                  "enough free unreserved machines not already promised in this step, ingest limit respected, hot and cold room "
                  "for the whole volume; limits hold after every event; ingest holds exactly the demand from the start for the "
                  "duration; status sequence WAITING->RUNNING->FINISHED; idle system => start exactly on time")

    def strategy(self, tier):
        kw = self.gen_kwargs(tier)
        return self.strategy_with_probe(self.base_strategy(tier))

    @staticmethod
    def cold_too_small(sc_strategy):
        """the largest observation does not fit the COLD buffer: it must never begin (the run then never ends - that is
        an infeasible configuration, outside C05 - but 'begins only if ... hot and cold buffers both have room' is
        judged on the prefix)"""
        def mk(sc):
            sc = json.loads(json.dumps(sc))
            big = max(o['rate'] * o['duration'] for o in sc['obs'])
            sc['cold']['capacity'] = max(1, big - 1)
            sc['infeasible_cold'] = True
            return sc
        return sc_strategy.map(mk)

    def base_strategy(self, tier):
        kw = self.gen_kwargs(tier)
        return mix((3, scenarios(min_obs=2, delays=True, **kw)),
                   (2, scenarios(max_obs=2, modes=('roomy',), max_nodes=2, max_machines=kw['max_machines'])),
                   (1, scenarios(min_obs=2, few_machines=True, **kw)),
                   (2, crowd(kw, min_obs=3, delays=True)),
                   (2, limited(kw)), (2, tight(kw)), (2, scenarios(modes=('bandov',), **kw)), (2, swarm(kw, delays=True)),
                   (1, self.cold_too_small(scenarios(modes=('roomy',), max_obs=3, max_nodes=3, max_duration=4,
                                                     max_machines=kw['max_machines']))),
                   (1, scenarios(unsorted=True, min_obs=2, **kw)),
                   (1, scenarios(min_obs=3, start_gaps=(0, 0, 1), **kw)),
                   # coarser timestep units; planned starts that do not fall on a step boundary
                   (2, scenarios(units=True, frac_start=True, modes=('roomy',), start_gaps=(0, 1, 2, 3, 5, 10), **kw)))

    def aborted(self, tr):
        return tr.status != 'completed' and not tr.sc.get('infeasible_cold')

    def strategy_with_probe(self, base):
        def add(pair):
            sc, d = pair
            sc = dict(sc)
            sc['idle_probe'] = d
            return sc
        return st.tuples(base, st.sampled_from([None, None, -1, 0, 0, 1, 2])).map(add)

    def run(self, sc):
        tr = run_scenario(sc)
        tr.probe = None
        d = sc.get('idle_probe')
        if d is not None and tr.status == 'completed' and sc['mode'] == 'roomy' and sc.get('unit', 'seconds') == 'seconds':
            # adaptive second run: one more small observation planned for the moment the system has just gone
            # completely idle (the first run tells when).  Everything before that moment is unchanged, so the
            # "due while completely idle => starts exactly on time" clause applies to it (the oracle re-checks
            # idleness itself - the probe only makes that situation frequent).
            s = int(tr.final_now) + d
            if s > max(o['start'] for o in sc['obs']):
                sc2 = json.loads(json.dumps(sc))
                sc2.pop('idle_probe', None)
                name = 'zz' + str(len(sc['obs']))
                while name in [o['name'] for o in sc2['obs']]:
                    name += 'z'
                sc2['obs'].append({"name": name, "start": s, "duration": 1, "demand": 1, "rate": 1, "ingest": 1,
                                   "wf": {"nodes": [{"id": 0, "comp": 1}], "edges": []}, "plan": {"0": 0}})
                if sc2['alg'].get('split'):
                    sc2['obs'][-1]['split'] = [1, len(sc2['machines'])]
                vols = sum(o['rate'] * o['duration'] for o in sc2['obs'])
                sc2['hot']['capacity'] = max(sc2['hot']['capacity'], int(vols / 0.6) + 2)
                tr.probe = run_scenario(sc2)
                tr.probe.probe_name = name
        return tr

    def violations(self, tr):
        out = O.C08(tr)
        if tr.probe is not None:
            for v in O.C08(tr.probe):
                v = dict(v)
                v['part'] = 'probe_' + v['part']
                v['msg'] = f"(with an extra observation {tr.probe.probe_name} planned at the end of the first run) " + v['msg']
                out.append(v)
            for k in ('idle_due', 'ontime_starts', 'postponed_starts'):
                tr.counts[k] = tr.counts.get(k, 0) + tr.probe.counts.get(k, 0)
            tr.counts['idle_probe_runs'] = 1
        return out

    def nontrivial(self, tr):
        return bool(tr.counts.get('postponed_starts') and tr.counts.get('idle_due'))

    def classes(self, tr):
        c = tr.counts
        return {k: c.get(k, 0) for k in ('postponed_starts', 'ontime_starts', 'idle_due', 'buffer_refusals',
                                         'machine_refusals', 'capacity_refusals', 'idle_probe_runs')}

    def summary(self, tr):
        s = super().summary(tr)
        u = 1
        s['begins'] = {n: r['begin'] for n, r in tr.obs.items()}
        s['refusals'] = tr.counts.get('capacity_refusals', 0)
        return s


# ----------------------------------------------------------------------------------------- C09

class C09(SimSpec):
    prop = 'C09'
    cases = {'quick': 640, 'thorough': 6400}
    rule = ("BatchPlanning+BatchProcessing scenarios (partitions 1-3, minimum, optional per-observation split, >= 2 observations "
            "so that workflows and ingests compete; plus configurations whose minimum exceeds floor(machines/partitions), where no reservation may ever be made); non-trivial = >= 2 reservations live at once, or >= 1 refused provisioning "
            "round; distinct = distinct canonical scenario JSON")
    level_text = ("exploration: every workflow-task allocation lands on a machine the shadow model holds reserved for that "
                  "observation; ingest and reservations only take unreserved free machines; a reservation's machine set never "
                  "changes; live reservations <= partitions after every event; sizes within floor(n/partitions) or the split and "
                  ">= minimum; at dequeue the reservation is gone and its machines are back in the free pool")

    def strategy(self, tier):
        kw = self.gen_kwargs(tier)
        return mix((3, scenarios(algs=('batch',), min_obs=2, delays=True, **kw)),
                   (2, crowd(kw, algs=('batch',), min_obs=3, delays=True)), (2, swarm(kw, algs=('batch',), delays=True)),
                   (1, scenarios(algs=('batch',), min_obs=3, start_gaps=(0, 0, 1, 2), **kw)),
                   (1, self.starved(scenarios(algs=('batch',), max_obs=3, max_nodes=3, max_duration=4, modes=('roomy',),
                                              max_machines=kw['max_machines']))))

    @staticmethod
    def starved(sc_strategy):
        """minimum reservation size above floor(machines / partitions): no legal reservation exists, so no workflow may ever be
        given one (the run then never ends - an infeasible configuration, outside C05 - and is cut off a few steps after the
        last observation; the size clauses are judged on that prefix)"""
        def mk(pair):
            sc, extra = pair
            sc = json.loads(json.dumps(sc))
            a = sc['alg']
            a['split'] = False
            for o in sc['obs']:
                o.pop('split', None)
            a['min'] = len(sc['machines']) // a['parts'] + extra
            sc['infeasible_min'] = True
            return sc
        return st.tuples(sc_strategy, st.sampled_from([1, 1, 2])).map(mk)

    def aborted(self, tr):
        return tr.status != 'completed' and not tr.sc.get('infeasible_min')

    def nontrivial(self, tr):
        if tr.sc.get('infeasible_min'):
            return bool(tr.counts.get('provision_refused_rounds')) or tr.status == 'budget'
        return tr.max_alive.get('res', 0) >= 2 or bool(tr.counts.get('provision_refused_rounds'))

    def classes(self, tr):
        return {'max_live_reservations>=2': int(tr.max_alive.get('res', 0) >= 2),
                'provision_refused_rounds': tr.counts.get('provision_refused_rounds', 0),
                'reservations_made': tr.counts.get('reservations_made', 0),
                'split': int(bool(tr.sc['alg'].get('split')))}

    def summary(self, tr):
        s = super().summary(tr)
        s['alg'] = tr.sc['alg']
        s['reservations'] = [list(x) for x in tr.reservation_sizes[:6]]
        return s


# ----------------------------------------------------------------------------------------- C12

def canonical_len(sc):
    return json.dumps(sc, sort_keys=True)


def ingest_end_orders(tr):
    """(in order, reversed): pairs of overlapping ingests that end in start order / in the opposite order"""
    iv = [(r['begin'], r['begin'] + len(r['deposits'])) for r in tr.obs.values() if r['begin'] is not None]
    iv.sort()
    same = rev = 0
    for i in range(len(iv)):
        for j in range(i + 1, len(iv)):
            if iv[j][0] < iv[i][1]:
                if iv[j][1] < iv[i][1]:
                    rev += 1
                elif iv[j][1] > iv[i][1]:
                    same += 1
    return same, rev


class C12(SimSpec):
    prop = 'C12'
    cases = {'quick': 640, 'thorough': 6400}
    rule = ("scenarios with >= 2 observations (mostly the overlap-friendly crowd family), all shipped pairings; every third case is also "
            "run as start(k)+resume(T) and its table judged the same way; non-trivial = at least two ingests overlapped in time "
            "(classes report whether they ended in start order or reversed); every row of the per-timestep table is compared; "
            "distinct = distinct canonical scenario JSON")
    level_text = ("exploration: number of rows == number of simulated steps, index contiguous, and for every step t each listed "
                  "column of row t equals the shadow model's snapshot taken before the first event of step t")

    def strategy(self, tier):
        kw = self.gen_kwargs(tier)
        return mix((3, scenarios(min_obs=2, delays=True, start_gaps=(0, 0, 1, 1, 2, 3), overlap=True,
                                 modes=('roomy',), max_duration=8, **kw)),
                   (1, scenarios(min_obs=2, delays=True, start_gaps=(0, 0, 1, 1, 2, 3), **kw)),
                   (1, scenarios(unsorted=True, min_obs=2, delays=True, **kw)), (1, swarm(kw, delays=True)),
                   (1, scenarios(delays=True, **kw)),
                   # hot / cold capacities that are not whole numbers: the free-space columns must report them exactly
                   (1, scenarios(frac_cap=True, min_obs=2, delays=True, start_gaps=(0, 0, 1, 1, 2, 3), overlap=True,
                                 modes=('roomy',), max_duration=8, **kw)))

    def run(self, sc):
        tr = run_scenario(sc)
        tr.paused = None
        # every third case (decided by the scenario itself) is also run paused/resumed to the same end:
        # the table must have one true row per simulated step there as well
        if tr.status == 'completed' and len(canonical_len(sc)) % 3 == 0 and tr.final_now > 2:
            T_ = int(tr.final_now)
            k = max(1, (len(canonical_len(sc)) // 3) % (T_ - 1))
            # ... or to a few steps PAST the completion of the workload: those steps are simulated, so they get rows too
            tail = (0, 2, 3)[(len(canonical_len(sc)) // 9) % 3]
            tr.paused = run_scenario(sc, pause=[k, T_ + tail])
            tr.paused.pause_points = [k]
            if tail:
                tr.counts['resumed_past_completion'] = 1
        return tr

    def violations(self, tr):
        out = O.C12(tr)
        if tr.paused is not None:
            p = tr.paused
            if p.status == 'completed':
                for v in O.C12(p):
                    v = dict(v)
                    v['part'] = 'paused_' + v['part']
                    v['msg'] = f"(start({p.pause_points[0]}) then resume({int(p.final_now)})) " + v['msg']
                    out.append(v)
        return out

    def nontrivial(self, tr):
        same, rev = ingest_end_orders(tr)
        return same + rev >= 1 or any(
            a['t'] < b_['end'] and b_['t'] < a['end'] for a in tr.allocs for b_ in tr.allocs
            if a is not b_ and a['ingest'] and b_['ingest'] and a['obs'] != b_['obs'] and a['end'] is not None and b_['end'] is not None)

    def classes(self, tr):
        same, rev = ingest_end_orders(tr)
        return {'overlapping_ingests_end_in_order': same, 'overlapping_ingests_end_reversed': rev,
                'rows_compared': 0 if tr.df is None else len(tr.df), 'paused_variant': int(tr.paused is not None),
                'fractional_buffer_capacity': int(any(tr.sc[b]['capacity'] != int(tr.sc[b]['capacity']) for b in ('hot', 'cold')))}

    def summary(self, tr):
        s = super().summary(tr)
        s['rows'] = None if tr.df is None else len(tr.df)
        if tr.df is not None and len(tr.df) > 2:
            t = len(tr.df) // 2
            s['row_sample'] = {'t': t, 'reported': {c: float(tr.df[c][t]) if tr.df[c][t] != int(tr.df[c][t]) else int(tr.df[c][t]) for c in O.C12_COLS}, 'shadow': tr.snaps.get(t)}
        return s


# ----------------------------------------------------------------------------------------- C13

class C13(SimSpec):
    prop = 'C13'
    cases = {'quick': 560, 'thorough': 6400}
    rule = ("scenarios with observations starting at t=0 and at t>0 (the two process orders), all shipped pairings; half of the "
            "cases are additionally re-run paused at generated points and resumed to the same end; 4 in 7 roomy cases get an adaptive second run with two extra twin observations whose ingests end together in (or next to) the step in which another observation's workflow is found finished; non-trivial = >= 2 "
            "observations with life-cycle transitions in the same timestep, or an observation starting at t>0 in a multi-"
            "observation plan; distinct = distinct canonical scenario JSON")
    level_text = ("exploration: per observation exactly one log entry per life-cycle transition, stamped with the shadow model's "
                  "time of that transition; causal chain ordered; buffer added == started; buffer removed == allocation stopped; "
                  "finished == started + duration; log times non-decreasing; same for paused/resumed runs")

    def strategy(self, tier):
        kw = self.gen_kwargs(tier)
        base = mix((3, scenarios(min_obs=2, delays=True, **kw)), (2, crowd(kw)), (2, tight(kw)), (2, swarm(kw, delays=True)),
                   (1, scenarios(unsorted=True, min_obs=2, **kw)), (1, scenarios(**kw)))

        def add(t):
            sc, fr, co = t
            sc = dict(sc)
            sc['pause_frac'] = fr
            sc['coincide'] = co
            return sc
        return st.tuples(base, st.one_of(st.just([]), st.lists(st.floats(0.02, 0.98), min_size=1, max_size=3)),
                         st.sampled_from([None, None, None, 0, 0, -1, 1])).map(add)

    @staticmethod
    def with_twins(sc, t_end, d):
        """the scenario plus two small twin observations (own arrays, machines and buffer room, so the others are disturbed as
        little as possible) whose ingests both end in step t_end: several observations then have transitions in ONE step"""
        sc2 = json.loads(json.dumps(sc))
        d = max(1, min(d, t_end + 1))
        start = t_end - d + 1
        used = {o['name'] for o in sc2['obs']}
        names = [n for n in ('tw', 'tx', 'ty', 'tz') if n not in used][:2]
        for n in names:
            sc2['obs'].append({'name': n, 'start': start, 'duration': d, 'demand': 1, 'rate': 1, 'ingest': 1,
                               'wf': {'nodes': [{'id': 0, 'comp': sc2['machines'][0]['flops']}], 'edges': []},
                               'plan': {'0': len(sc2['machines'])}})
        sc2['arrays'] += 2
        if sc2.get('mnames'):
            sc2['mnames'] = list(sc2['mnames']) + ['zz1', 'zz2']
        sc2['machines'] += [dict(sc2['machines'][0]), dict(sc2['machines'][0])]
        sc2['max_ingest'] += 2
        sc2['hot']['capacity'] += int(2 * d / 0.6) + 2
        sc2['cold']['capacity'] = max(sc2['cold']['capacity'], d)
        if sc2['alg'].get('split'):
            for o in sc2['obs'][-2:]:
                o['split'] = [1, 1]
        return sc2, names

    def run(self, sc):
        tr = run_scenario(sc)
        tr.paused = None
        tr.twin = None
        co = sc.get('coincide')
        if (co is not None and tr.status == 'completed' and sc['mode'] == 'roomy' and sc.get('unit', 'seconds') == 'seconds'
                and sc['alg']['kind'] != 'adversary'):
            # adaptive second run: two twin observations whose ingests end in the very step in which (or next to which) another
            # observation's workflow is found finished; one correction round, because the twins themselves shift the others a little
            ends = sorted((r['dequeued_at'], n) for n, r in tr.obs.items() if r['dequeued_at'] is not None and r['dequeued_at'] >= 2)
            if ends:
                t_x, x = ends[0]
                target = int(t_x) + co
                for _ in range(2):
                    sc2, names = self.with_twins(sc, target, 3)
                    t2 = run_scenario(sc2)
                    if t2.status != 'completed':
                        break
                    got_x = t2.obs[x]['dequeued_at']
                    tr.twin = t2
                    t2.twin_names = names
                    b = t2.obs[names[0]]['begin']
                    hit = got_x is not None and b is not None and int(b) + min(3, target + 1) - 1 == int(got_x) + co
                    tr.counts['twin_coincidence'] = int(hit)
                    if got_x is None or int(got_x) + co == target:
                        break
                    target = int(got_x) + co
        if tr.status == 'completed' and sc.get('pause_frac'):
            T = int(tr.final_now)
            pts = sorted({max(1, min(T - 1, int(f * T))) for f in sc['pause_frac']}) if T > 1 else []
            if pts:
                tr.paused = run_scenario(sc, pause=pts + [T])
                tr.paused.pause_points = pts
        return tr

    def violations(self, tr):
        out = O.C13(tr)
        if getattr(tr, 'twin', None) is not None:
            for v in O.C13(tr.twin):
                v = dict(v)
                v['part'] = 'twins_' + v['part']
                v['msg'] = f"(with two extra twin observations {tr.twin.twin_names} whose ingests end together) " + v['msg']
                out.append(v)
            tr.counts['twin_runs'] = 1
        if tr.paused is not None:
            p = tr.paused
            if p.status != 'completed':
                out.append(O.V('C13', 'paused_run_failed', f"paused at {p.pause_points}: {p.status} {getattr(p, 'exc_sig', '')}"))
            else:
                for v in O.C13(p):
                    v = dict(v)
                    v['part'] = 'paused_' + v['part']
                    v['msg'] = f"(paused at {p.pause_points}) " + v['msg']
                    out.append(v)
        return out

    def nontrivial(self, tr):
        if tr.status != 'completed':
            return False
        times = {}
        for n, r in tr.obs.items():
            for k in ('begin', 'finish', 'queued_at', 'dequeued_at', 'alloc_started_at', 'freed_at'):
                if r[k] is not None:
                    times.setdefault(int(r[k]), set()).add(n)
        same_step = any(len(v) >= 2 for v in times.values())
        late = len(tr.obs) >= 2 and any(r['begin'] and r['begin'] > 0 for r in tr.obs.values())
        return same_step or late

    def classes(self, tr):
        return {'paused_variant': int(tr.paused is not None),
                'twin_runs': tr.counts.get('twin_runs', 0), 'twin_coincidence': tr.counts.get('twin_coincidence', 0),
                'starts_at_0': sum(1 for r in tr.obs.values() if r['begin'] == 0),
                'starts_later': sum(1 for r in tr.obs.values() if r['begin'])}

    def summary(self, tr):
        s = super().summary(tr)
        s['log_entries'] = None if tr.events_df is None else len(tr.events_df)
        s['paused_at'] = None if tr.paused is None else tr.paused.pause_points
        return s


# ----------------------------------------------------------------------------------------- C17

class C17(SimSpec):
    prop = 'C17'
    cases = {'quick': 640, 'thorough': 6400}
    rule = ("ListPlanning + DynamicSchedulingFromPlan scenarios with generated task->machine maps on heterogeneous clusters "
            "(many tasks piled on one machine), ingest and concurrent workflows contending; non-trivial = at least one scheduling "
            "round in which a ready task's planned machine was held while another machine was free (a forced wait); "
            "distinct = distinct canonical scenario JSON")
    level_text = ("exploration: the machine of every execution equals the machine recorded when Planner.run returned; no task "
                  "runs on two machines")

    def strategy(self, tier):
        kw = self.gen_kwargs(tier)
        return mix((3, scenarios(algs=('dynamic',), piled_plans=True, min_obs=2, delays=True, **kw)),
                   (1, crowd(kw, algs=('dynamic',), piled_plans=True, delays=True)), (1, swarm(kw, algs=('dynamic',), delays=True)),
                   # "however long that machine is kept busy by ingest": long observations holding planned machines
                   (3, scenarios(algs=('dynamic',), piled_plans=True, min_obs=2, long_durations=True, few_machines=True,
                                 modes=('roomy',), start_gaps=(0, 1, 2, 3), **kw)),
                   (1, scenarios(algs=('dynamic',), piled_plans=True, **kw)),
                   # "static plans over heterogeneous clusters": machine ids whose configuration order is not alphabetical
                   (2, scenarios(algs=('dynamic',), odd_names=True, delays=True, min_obs=2, **kw)))

    def nontrivial(self, tr):
        return bool(tr.counts.get('forced_wait_rounds'))

    def classes(self, tr):
        return {'forced_wait_rounds': tr.counts.get('forced_wait_rounds', 0)}

    def summary(self, tr):
        s = super().summary(tr)
        s['forced_wait_rounds'] = tr.counts.get('forced_wait_rounds', 0)
        s['plan'] = {n: {t['gid']: t['machine'] for t in p['tasks']} for n, p in list(tr.plans.items())[:2]}
        return s


# ----------------------------------------------------------------------------------------- C19 (simulation trajectories)

class C19(SimSpec):
    prop = 'C19'
    cases = {'quick': 640, 'thorough': 6400}
    rule = ("simulation trajectories of all shipped pairings (queries evaluated at every end of step; half of the cases are run a second time with start(runtime=k)/resume and the queries are also judged where each of those calls returned) plus cluster operation "
            "histories (ClusterOps state machine, query evaluated after every rule); non-trivial = trajectory in which the "
            "cluster query's truth and the buffer query's truth each took both values; distinct = distinct canonical scenario JSON")
    level_text = ("exploration: an actor's idle/empty answer of True must be true in the shadow model (no active allocation; ledger "
                  "shows both tiers full; shadow queue empty; all observations finished and no arrays in use), and "
                  "Simulation.is_finished() == conjunction of the four shadow truths, at every end of step")

    def strategy(self, tier):
        kw = self.gen_kwargs(tier)
        return mix((3, scenarios(delays=True, **kw)), (1, crowd(kw, delays=True)), (1, tight(kw)), (1, swarm(kw, delays=True)),
                   (1, scenarios(unsorted=True, min_obs=2, delays=True, **kw)),
                   # observations without data: the buffer is "empty" while their workflows are still queued
                   (1, scenarios(zero_rate=True, delays=True, **kw)))

    def run(self, sc):
        tr = run_scenario(sc)
        tr.paused = None
        # every other case is run a second time with start(runtime=k) / resume(until=...) at two points derived from the first
        # run's length; the queries are judged in the state in which each of those calls returned
        T = int(tr.final_now or 0)
        if tr.status == 'completed' and T > 2 and len(canonical_len(sc)) % 2 == 0:
            pts = sorted({max(1, T // 3), max(1, (2 * T) // 3)})
            tr.paused = run_scenario(sc, pause=pts + [T])
            tr.paused.pause_points = pts
        return tr

    @staticmethod
    def after_completion_probe(tr):
        """'in every state reachable by cluster operation sequences': on the finished simulation a task is handed straight to the
        cluster (public Cluster.allocate_task_to_cluster) and the clock advanced into its execution: buffer, scheduler and telescope
        are idle, the cluster is not - neither the cluster nor the simulation may say idle / finished"""
        from topsim.core.task import Task
        from . import trace as T
        sim, env = tr.sim, tr.env
        out = []
        m = sim.cluster.machines[0]
        task = Task('zzprobe_0_0', 0, 6, None, [], 0, 0, {}, None)
        T.CURRENT = tr
        try:
            env.process(sim.cluster.allocate_task_to_cluster(task, m, [], None))
            env.run(until=env.now + 2)
            said_c, said_f = bool(sim.cluster.is_idle()), bool(sim.is_finished())
            running = task.aft == -1 or task.aft > env.now
            if running and said_c:
                out.append(O.V('C19', 'cluster_query', f"after completion a task handed to the cluster is executing on {m.id} at {env.now} but Cluster.is_idle() is True"))
            if running and said_f:
                out.append(O.V('C19', 'finished_query', f"after completion a task handed to the cluster is executing on {m.id} at {env.now} (cluster busy, "
                               f"buffer / scheduler / telescope idle) but Simulation.is_finished() is True"))
            env.run(until=env.now + 8)
            if not sim.cluster.is_idle() and task.aft != -1 and task.aft <= env.now - 1:
                pass        # "idle only when": a late True is not claimed
        except T.StepBudgetExceeded:
            pass
        finally:
            T.CURRENT = None
        tr.counts['after_completion_probe'] = 1
        return out

    def violations(self, tr):
        out = super().violations(tr)
        if tr.status == 'completed' and len(canonical_len(tr.sc)) % 3 == 0:
            out += self.after_completion_probe(tr)
        p = getattr(tr, 'paused', None)
        if p is not None:
            for v in O.C19(p):
                v = dict(v)
                v['part'] = 'paused_' + v['part']
                v['msg'] = f"(start(runtime={p.pause_points[0]}) then resume to {p.pause_points[1:]}) " + v['msg']
                out.append(v)
            tr.counts['paused_variant'] = 1
            tr.counts['queries_at_pause_points'] = p.counts.get('queries_at_pause_points', 0)
        return out

    def nontrivial(self, tr):
        c = tr.counts
        return all(c.get(k) for k in ('q_cluster_True', 'q_cluster_False', 'q_buffer_True', 'q_buffer_False'))

    def classes(self, tr):
        return {k: v for k, v in tr.counts.items() if k.startswith('q_') or k in ('paused_variant', 'queries_at_pause_points', 'after_completion_probe')}

    def summary(self, tr):
        s = super().summary(tr)
        s['query_truth_counts'] = {k: v for k, v in tr.counts.items() if k.startswith('q_')}
        return s


for _c in (C01, C03, C04, C07, C08, C09, C12, C13, C17, C19):
    register(_c)
