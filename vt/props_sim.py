"""Simulation-level property specs: generator profile, oracle, non-triviality rule, classes."""
import json

from hypothesis import strategies as st

from . import oracles as O
from .engine import case_hash
from .runner import run_scenario
from .scenario import classify, scenarios, serial_bound

SIZES = {
    'quick': dict(max_machines=6, max_obs=4, max_nodes=6),
    'thorough': dict(max_machines=10, max_obs=6, max_nodes=12),
}


def mix(*weighted):
    """weighted choice between strategies, drawn inside Hypothesis"""
    table = []
    for w, s in weighted:
        table += [s] * w
    return st.integers(0, len(table) - 1).flatmap(lambda i: table[i])


def brief(sc):
    """short description of a scenario for evidence samples"""
    return {'alg': sc['alg']['kind'], 'mode': sc['mode'], 'machines': len(sc['machines']),
            'unit': sc.get('unit', 'seconds'),
            'obs': [{'name': o['name'], 'start': o['start'], 'duration': o['duration'], 'rate': o['rate'],
                     'demand': o['demand'], 'ingest': o['ingest'], 'nodes': len(o['wf']['nodes']),
                     'edges': len(o['wf']['edges'])} for o in sc['obs']],
            'hot': sc['hot'], 'cold': sc['cold'], 'delays': len(sc.get('delays') or {})}


class SimSpec:
    prop = None
    oracle_props = None
    cases = {'quick': 320, 'thorough': 8000}
    rule = ''
    level_text = ''
    assumptions = ["SimPy's deterministic event order (time, priority, insertion id) is the only schedule explored; "
                   "orders SimPy cannot produce are outside the property's quantifier",
                   "plan-following pairings use the harness's ListPlanning (SHADOWPlanning cannot be imported on this image); "
                   "topsim/user/plan/static_planning.py is not executed"]
    adversary_allowed_abort = False

    def gen_kwargs(self, tier):
        return dict(SIZES[tier])

    def strategy(self, tier):
        return scenarios(**self.gen_kwargs(tier))

    def run(self, sc):
        return run_scenario(sc)

    def violations(self, tr):
        out = []
        for p in (self.oracle_props or [self.prop]):
            out += [v for v in O.ORACLES[p](tr) if v['prop'] == self.prop]
        return out

    def sig(self, v, tr):
        return v['part']

    def nontrivial(self, tr):
        return True

    def classes(self, tr):
        return {}

    def summary(self, tr):
        return {'scenario': brief(tr.sc), 'status': tr.status, 'end_clock': tr.final_now}

    def aborted(self, tr):
        return tr.status != 'completed'

    def body(self, sc, state):
        tr = self.run(sc)
        state.evaluations += 1
        state.merge_counts(classify(sc))
        state.count(f"status={tr.status}")
        if tr.status == 'raised':
            state.count(f"raised:{tr.exc_sig}")
        viol = self.violations(tr)
        for v in viol:
            v['sig'] = self.sig(v, tr)
        unlisted = state.split_known(viol)
        if self.aborted(tr):
            state.aborted += 1
        for k, v in self.classes(tr).items():
            if v:
                state.count(k, v if isinstance(v, int) and not isinstance(v, bool) else 1)
        if self.nontrivial(tr):
            state.nontrivial.add(case_hash(sc))
            state.sample(self.summary(tr))
        return unlisted

    # replay of one case outside Hypothesis
    def replay_case(self, sc, state):
        return self.body(sc, state)

    def run_shard(self, state, tier, seed, shard, nshards, cases=None):
        from .engine import run_given, shard_seed
        total = cases or self.cases[tier]
        n = max(1, total // nshards)
        run_given(state, self.strategy(tier), self.body, n, shard_seed(seed, self.prop, shard))


# ----------------------------------------------------------------------------------------- C05

class C05(SimSpec):
    prop = 'C05'
    cases = {'quick': 400, 'thorough': 12000}
    rule = ("scenario strategy (feasible by construction; buffer modes roomy / serialising band; ~10% in-region "
            "tiering probe); non-trivial = at least one observation start was refused by the capacity check "
            "(buffer or machines) or one batch provisioning attempt was refused, and the run was judged against the bound; "
            "distinct = distinct canonical scenario JSON")

    def strategy(self, tier):
        kw = self.gen_kwargs(tier)
        main = scenarios(delays=True, **kw)
        probe = scenarios(modes=('tiering',), **kw)
        return mix((9, main), (1, probe))

    def sig(self, v, tr):
        if tr.tiering_entered:
            if v['part'] == 'raised':
                return f"tiering_entered+{tr.exc_sig}"
            if v['part'] == 'hang':
                b = tr.sim.buffer
                stranded = bool(b.cold[0].observations['stored'] or b.cold[0].observations['transfer']
                                or b.hot[0].observations['transfer'])
                return "tiering_entered+hang_stranded_in_cold" if stranded else "tiering_entered+hang_other"
            return f"tiering_entered+{v['part']}"
        if v['part'] == 'raised':
            return f"raised+{tr.exc_sig}"
        return v['part']

    def nontrivial(self, tr):
        c = tr.counts
        refused_batch = any(r['status'] != 5 and not r['proposals'] and r['ready'] > 0 and r['free'] == 0 for r in tr.algo_runs)
        return bool(c.get('capacity_refusals') or refused_batch)

    def classes(self, tr):
        c = tr.counts
        out = {k: c.get(k, 0) for k in ('buffer_refusals', 'machine_refusals', 'buffer_refusal_while_machines_free')}
        out['tiering_entered'] = int(tr.tiering_entered)
        if tr.sc['mode'] == 'tiering':
            out['in_region_probe'] = 1
        if tr.status == 'completed':
            ratio = tr.final_now / max(1, serial_bound(tr.sc))
            out[f"clock_over_bound_decile={min(10, int(ratio * 10))}"] = 1
        return out

    def summary(self, tr):
        s = super().summary(tr)
        s['serial_bound'] = serial_bound(tr.sc)
        s['refusals'] = tr.counts.get('capacity_refusals', 0)
        return s


SPECS = {}


def register(cls):
    SPECS[cls.prop] = cls()
    return cls


register(C05)
