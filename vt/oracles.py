"""Offline oracles evaluated on a finished Trace.  Online oracles (after every event / at every end
of step) live in trace.Trace and are merged here by property id.

Each oracle returns a list of violation dicts {'prop','part','msg'}.  Oracles read the *recorded
boundary events and the shadow model*; the implementation's own tables are only the thing judged."""
import math

from .scenario import machine_name, serial_bound, unit_factor
from .trace import EPS, istep


def V(prop, part, msg):
    return {'prop': prop, 'part': part, 'msg': msg}


def online(tr, prop):
    return [v for v in tr.violations if v['prop'] == prop]


# ---------------------------------------------------------------- shared views of a trace

def scenario_obs(tr):
    return {o['name']: o for o in tr.sc['obs']}


def machine_specs(tr):
    u = unit_factor(tr.sc.get('unit', 'seconds'))
    return {machine_name(tr.sc, i): {'cpu': m['flops'] * u, 'bw': m['bw'] * u} for i, m in enumerate(tr.sc['machines'])}


def workflow_view(tr):
    """per observation: node id -> {'task': id, 'work': rec, 'alloc': rec} built from the recorded
    plan (task id <-> node id), do_work and allocation records"""
    works = {}
    for w in tr.works:
        works.setdefault(w['task'], []).append(w)
    allocs = {}
    for a in tr.allocs:
        if a.get('begun'):
            allocs.setdefault(a['task'], []).append(a)
    out = {}
    for name, plan in tr.plans.items():
        nodes = {}
        for t in plan['tasks']:
            nodes[t['gid']] = {'task': t['id'], 'plan': t, 'works': works.get(t['id'], []),
                               'allocs': allocs.get(t['id'], [])}
        out[name] = nodes
    return out


def steps_of(tr, seconds):
    return seconds / unit_factor(tr.sc.get('unit', 'seconds'))


# ---------------------------------------------------------------- C01 / C02 (online only + final)

def C01(tr):
    return online(tr, 'C01')


def C02(tr):
    out = online(tr, 'C02')
    if tr.status == 'completed' and not getattr(tr, 'partial', False):
        r = tr.pools()
        if sorted(m.id for m in r['available']) != sorted(tr.mids) or r['idle'] or r['ingest'] or r['occupied']:
            out.append(V('C02', 'final_pools', f"at the end: available={r['available']} ingest={r['ingest']} occupied={r['occupied']} idle={r['idle']}"))
        # Cluster.num_provisioned_obs counts provisioning calls, not reservations: after a user algorithm topped a reservation up
        # it is no longer comparable (C02 does not name that counter; the pools above are what it speaks about)
        if tr.sim.cluster.num_provisioned_obs != 0 and not getattr(tr.sim.scheduler.algorithm, 'topups', 0):
            out.append(V('C02', 'final_reservation_count', f"reservation counter {tr.sim.cluster.num_provisioned_obs} at the end"))
    return out


# ---------------------------------------------------------------- C03

def C03(tr):
    out = []
    specs = machine_specs(tr)
    so = scenario_obs(tr)
    for name, nodes in workflow_view(tr).items():
        wf = so[name]['wf']
        for (p, t, vol) in wf['edges']:
            if p not in nodes or t not in nodes:
                continue
            wt, wp = nodes[t]['works'], nodes[p]['works']
            if not wt or 'ast' not in wt[0]:
                continue
            if not wp or 'aft' not in wp[0]:
                out.append(V('C03', 'pred_not_finished', f"{name}: task {t} started although predecessor {p} never finished"))
                continue
            if wt[0]['ast'] < wp[0]['aft'] - EPS:
                out.append(V('C03', 'starts_before_pred', f"{name}: task {t} starts {wt[0]['ast']} before predecessor {p} finished {wp[0]['aft']}"))
        for n, rec in nodes.items():
            if not rec['works'] or 'ast' not in rec['works'][0] or not rec['allocs']:
                continue
            w = rec['works'][0]
            a = rec['allocs'][0]
            bw = specs[w['machine']]['bw']
            expect = a['t']
            waited = False
            for (p, t, vol) in wf['edges']:
                if t != n or p not in nodes or not nodes[p]['works'] or 'aft' not in nodes[p]['works'][0]:
                    continue
                wp = nodes[p]['works'][0]
                if wp['machine'] != w['machine']:
                    arr = wp['aft'] + vol / bw
                    if arr > expect + EPS:
                        expect = arr
                        waited = True
            if abs(w['ast'] - expect) > 1e-6:
                out.append(V('C03', 'wrong_start', f"{name}: task {n} on {w['machine']} recorded start {w['ast']}, expected max(allocation {a['t']}, arrivals) = {expect}"))
            if waited:
                tr.count('transfer_wait_delayed_start')
    return out


def C03_classes(tr):
    so = scenario_obs(tr)
    cross = same = 0
    for name, nodes in workflow_view(tr).items():
        for (p, t, vol) in so[name]['wf']['edges']:
            if p in nodes and t in nodes and nodes[p]['works'] and nodes[t]['works']:
                if nodes[p]['works'][0]['machine'] != nodes[t]['works'][0]['machine']:
                    if vol > 0:
                        cross += 1
                else:
                    same += 1
    return cross, same


# ---------------------------------------------------------------- C04

def C04(tr):
    out = [v for v in online(tr, 'C04')]
    if tr.status != 'completed':
        return out
    so = scenario_obs(tr)
    sim = tr.sim
    executed = {}
    for w in tr.works:
        executed[w['task']] = executed.get(w['task'], 0) + 1
    for tid, n in executed.items():
        if n != 1:
            out.append(V('C04', 'executed_twice', f"task {tid} executed {n} times"))
    view = workflow_view(tr)
    for name, o in so.items():
        rec = tr.obs[name]
        if rec['begin'] is None or rec['finish'] is None:
            out.append(V('C04', 'not_observed', f"{name}: begin={rec['begin']} finish={rec['finish']} at the end of a completed run"))
        n_ing = sum(1 for a in tr.allocs if a['ingest'] and a['obs'] == name and a.get('begun'))
        if n_ing != o['ingest']:
            out.append(V('C04', 'ingest_count', f"{name}: {n_ing} ingest tasks executed, pipeline demand {o['ingest']}"))
        nodes = view.get(name)
        if nodes is None:
            out.append(V('C04', 'no_plan', f"{name}: workflow never planned"))
            continue
        want = sorted(n['id'] for n in o['wf']['nodes'])
        if sorted(nodes.keys()) != want:
            out.append(V('C04', 'plan_nodes', f"{name}: plan covers nodes {sorted(nodes.keys())}, workflow has {want}"))
        for nid in want:
            k = len(nodes[nid]['works']) if nid in nodes else 0
            if k != 1:
                out.append(V('C04', 'node_exec_count', f"{name}: node {nid} executed {k} times"))
        if str(rec['obj'].status.value) != 'FINISHED':
            out.append(V('C04', 'status_not_finished', f"{name}: status {rec['obj'].status} at the end"))
    # task table: one row per executed task
    tdf = tr.tasks_df
    if tdf is not None:
        idx = list(tdf.index)
        if len(idx) != len(set(idx)):
            out.append(V('C04', 'table_duplicate_rows', "task table has duplicate rows"))
        if sorted(map(str, idx)) != sorted(executed.keys()):
            missing = sorted(set(executed) - set(map(str, idx)))
            extra = sorted(set(map(str, idx)) - set(executed))
            out.append(V('C04', 'table_rows', f"task table rows != executed tasks (missing {missing[:4]}, extra {extra[:4]})"))
    # "has executed": every row of the returned table describes a finished execution
    if tdf is not None and 'aft' in getattr(tdf, 'columns', []):
        for tid, row in tdf.iterrows():
            if row['aft'] is None or row['aft'] < 0 or row['aft'] < row['ast']:
                out.append(V('C04', 'row_without_finish', f"task table row {tid}: ast {row['ast']}, aft {row['aft']} on return"))
                break
    # quiescence
    if any(s['alloc'] is not None for s in tr.m.values()):
        out.append(V('C04', 'task_still_running', "an allocation is still active on return"))
    bodies = [(mid, t) for mid, s in tr.m.items() for t in s['work']]
    if bodies:
        out.append(V('C04', 'task_still_running', f"task bodies still executing on return: {bodies[:4]}"))
    if tr.queue or sim.scheduler.observation_queue:
        out.append(V('C04', 'queue_not_empty', f"queue on return: shadow {tr.queue} impl {sim.scheduler.observation_queue}"))
    r = tr.pools()
    # Cluster.num_provisioned_obs counts provisioning *calls*; after a user algorithm has topped a reservation up it no longer
    # equals the number of reservations (C04 does not name that counter), so only the pools are judged then
    topped = getattr(sim.scheduler.algorithm, 'topups', 0)
    if topped:
        tr.count('runs_with_topped_up_reservation')
    if r['idle'] or tr.res_live or (sim.cluster.num_provisioned_obs != 0 and not topped):
        out.append(V('C04', 'reservation_held', f"reservation on return: {r['idle']} count={sim.cluster.num_provisioned_obs}"))
    if sorted(m.id for m in r['available']) != sorted(tr.mids):
        out.append(V('C04', 'machines_not_available', f"available on return: {r['available']}"))
    hot, cold = sim.buffer.hot[0], sim.buffer.cold[0]
    if hot.current_capacity != hot.total_capacity or cold.current_capacity != cold.total_capacity:
        out.append(V('C04', 'buffers_not_full', f"free space on return hot {hot.current_capacity}/{hot.total_capacity} cold {cold.current_capacity}/{cold.total_capacity}"))
    if any(r_['resident'] for r_ in tr.obs.values()):
        out.append(V('C04', 'data_resident', "ledger still holds resident data on return"))
    return out


# ---------------------------------------------------------------- C05

def C05(tr, latency=3):
    out = []
    if tr.status == 'raised':
        out.append(V('C05', 'raised', f"run raised {tr.exc_sig}: {tr.exc_msg}"))
    elif tr.status == 'budget':
        out.append(V('C05', 'hang', f"no completion within the step budget {tr.budget} (serial bound {serial_bound(tr.sc, latency)})"))
    else:
        b = serial_bound(tr.sc, latency)
        if tr.final_now > b:
            out.append(V('C05', 'over_bound', f"finished at {tr.final_now} > serial bound {b}"))
    return out


# ---------------------------------------------------------------- C06

def expected_runtime(tr, node, machine_id, extra):
    sp = machine_specs(tr)[machine_id]
    base = max(int(node['comp'] / sp['cpu']), int(node.get('task_data', 0) / sp['bw']))
    return max(1, base + extra), base


def C06(tr):
    out = []
    so = scenario_obs(tr)
    delays = tr.sc.get('delays') or {}
    shipped = bool(tr.sc.get('delay_model'))
    for name, nodes in workflow_view(tr).items():
        nd = {n['id']: n for n in so[name]['wf']['nodes']}
        for nid, rec in nodes.items():
            for w in rec['works']:
                if 'aft' not in w or w.get('exc'):
                    continue
                extra = delays.get(f"{name}:{nid}", 0)
                want, base = expected_runtime(tr, nd[nid], w['machine'], extra)
                got = w['aft'] - w['ast']
                if shipped:
                    if got < max(1, base) - EPS:
                        out.append(V('C06', 'shorter_than_nominal', f"{name}: node {nid} ran {got} < nominal {max(1, base)}"))
                elif abs(got - want) > 1e-6:
                    out.append(V('C06', 'runtime', f"{name}: node {nid} on {w['machine']} ran {got} steps, expected {want} (comp {nd[nid]['comp']}, data {nd[nid].get('task_data', 0)}, extra {extra})"))
                span = w['exit'] + 1 - w['ast']
                if not shipped and abs(span - want) > 1e-6:
                    out.append(V('C06', 'body_span', f"{name}: node {nid} body occupied {span} steps, expected {want}"))
                for a in rec['allocs']:
                    if a['end'] is not None and a['end'] > math.ceil(w['aft'] - EPS) + EPS:
                        out.append(V('C06', 'late_handback', f"{name}: node {nid} machine handed back at {a['end']} > finish {w['aft']}"))
    for w in tr.works:
        a = None
        if '_ingest_' in w['task'] and 'aft' in w:
            for al in tr.allocs:
                if al['task'] == w['task'] and al['ingest']:
                    a = al
            if a is None:
                continue
            d = steps_of(tr, so[a['obs']]['duration'])
            if abs((w['aft'] - w['ast']) - d) > 1e-6:
                out.append(V('C06', 'ingest_runtime', f"ingest task {w['task']} ran {w['aft'] - w['ast']} steps, observation duration {d}"))
    return out


# ---------------------------------------------------------------- C07

def C07(tr):
    out = online(tr, 'C07')
    so = scenario_obs(tr)
    u = unit_factor(tr.sc.get('unit', 'seconds'))
    for name, rec in tr.obs.items():
        o = so[name]
        if rec['begin'] is None:
            continue
        dur = o['duration'] // u
        rate = round(o['rate'] * u)
        deps = rec['deposits']
        ended = (tr.final_now is not None and tr.final_now >= rec['begin'] + dur) and tr.status == 'completed'
        for i, (t, amt) in enumerate(deps):
            if abs(t - (rec['begin'] + i)) > EPS:
                out.append(V('C07', 'deposit_time', f"{name}: deposit #{i} at {t}, expected step {rec['begin'] + i}"))
                break
            if amt != rate:
                out.append(V('C07', 'deposit_amount', f"{name}: deposit #{i} of {amt}, data rate per step is {rate}"))
                break
        if len(deps) > dur:
            out.append(V('C07', 'too_many_deposits', f"{name}: {len(deps)} deposits for a duration of {dur} steps"))
        if ended and len(deps) != dur:
            out.append(V('C07', 'deposit_count', f"{name}: {len(deps)} deposits for a duration of {dur} steps"))
    # "exactly that amount is freed when its workflow completes": not before every task of the workflow has finished
    view = workflow_view(tr)
    for name, rec in tr.obs.items():
        if rec['freed_at'] is None:
            continue
        nodes = view.get(name, {})
        for n in so[name]['wf']['nodes']:
            r_ = nodes.get(n['id'])
            ends = [a['end'] for a in (r_['allocs'] if r_ else []) if a['end'] is not None]
            if not ends or min(ends) > rec['freed_at'] + EPS:
                out.append(V('C07', 'freed_before_workflow_done', f"{name}: data freed at {rec['freed_at']} but workflow node {n['id']} "
                             f"{'finished at ' + str(min(ends)) if ends else 'had not finished'}"))
                break
    if tr.status == 'completed' and not getattr(tr, 'partial', False):
        hot, cold = tr.sim.buffer.hot[0], tr.sim.buffer.cold[0]
        if hot.current_capacity != hot.total_capacity or cold.current_capacity != cold.total_capacity:
            out.append(V('C07', 'not_full_at_end', f"free space at the end hot {hot.current_capacity}/{hot.total_capacity} cold {cold.current_capacity}/{cold.total_capacity}"))
    return out


# ---------------------------------------------------------------- C08

def C08(tr):
    out = online(tr, 'C08')
    so = scenario_obs(tr)
    u = unit_factor(tr.sc.get('unit', 'seconds'))
    tel = tr.sim.instrument
    for name, rec in tr.obs.items():
        o = so[name]
        seq = rec['status_seq']
        if seq != ['WAITING', 'RUNNING', 'FINISHED'][:len(seq)]:
            out.append(V('C08', 'status_sequence', f"{name}: status sequence {seq}"))
        if tr.status == 'completed' and not getattr(tr, 'partial', False) and seq != ['WAITING', 'RUNNING', 'FINISHED']:
            out.append(V('C08', 'status_sequence', f"{name}: status sequence {seq} at the end of a completed run"))
        s = rec['begin_snap']
        if s is None:
            continue
        planned = o['start'] / u
        if s['t'] < planned - EPS:
            out.append(V('C08', 'early_start', f"{name}: began at {s['t']} before planned start {planned}"))
        if s['free_arrays'] < s['demand']:
            out.append(V('C08', 'arrays', f"{name}: began with {s['free_arrays']} free arrays, needs {s['demand']}"))
        if s['free_machines'] - s['pending'] < s['ingest_demand']:
            out.append(V('C08', 'machines', f"{name}: began with {s['free_machines']} free machines ({s['pending']} already promised this step), needs {s['ingest_demand']}"))
        if s['on_ingest'] + s['pending'] + s['ingest_demand'] > tel.max_ingest:
            out.append(V('C08', 'ingest_limit_at_start', f"{name}: {s['on_ingest']} on ingest + {s['pending']} promised + demand {s['ingest_demand']} > limit {tel.max_ingest}"))
        if s['hot_free'] < s['volume'] or s['hot_free_impl'] < s['volume']:
            out.append(V('C08', 'hot_room', f"{name}: began with hot free {s['hot_free']} (reported {s['hot_free_impl']}) < volume {s['volume']}"))
        if s['cold_free_impl'] < s['volume']:
            out.append(V('C08', 'cold_room', f"{name}: began with cold free {s['cold_free_impl']} < volume {s['volume']}"))
        # ingest allocations
        dur = o['duration'] / u
        ing = [a for a in tr.allocs if a['ingest'] and a['obs'] == name and a.get('begun')]
        if len({a['machine'] for a in ing}) != o['ingest'] or len(ing) != o['ingest']:
            if tr.status == 'completed' or len(ing) > o['ingest']:
                out.append(V('C08', 'ingest_machines', f"{name}: ingest ran on {len(ing)} allocations / {len({a['machine'] for a in ing})} machines, demand {o['ingest']}"))
        for a in ing:
            if abs(a['t'] - s['t']) > EPS:
                out.append(V('C08', 'ingest_start', f"{name}: ingest allocation at {a['t']}, observation began {s['t']}"))
            if a['end'] is not None and not (s['t'] + dur - 1 - EPS <= a['end'] <= s['t'] + dur + EPS):
                out.append(V('C08', 'ingest_hold', f"{name}: ingest machine {a['machine']} held [{a['t']}, {a['end']}], duration {dur}"))
        if rec['finish'] is not None and abs(rec['finish'] - (s['t'] + dur)) > EPS:
            out.append(V('C08', 'finish_time', f"{name}: telescope finished it at {rec['finish']}, began {s['t']} + duration {dur}"))
        # on time when idle
        t0 = math.ceil(planned - EPS)      # a planned start between two steps is on time at the first step after it
        if t0 in tr.snaps or t0 == 0:
            snap = tr.snaps.get(t0)
            others_due = [n for n, o2 in so.items() if n != name and o2['start'] / u <= t0 + EPS
                          and (tr.obs[n]['begin'] is None or tr.obs[n]['begin'] >= t0 - EPS)]
            idle = snap is not None and snap['running_tasks'] == 0 and snap['scheduler_observation_queue'] == 0 \
                and snap['hot_buffer'] == tr.hot_cap and snap['stored'] == 0 and snap['provisioned_observations'] == 0 \
                and not others_due and not tr.tier_moves
            if idle:
                tr.count('idle_due')
                if abs(s['t'] - t0) > EPS:
                    out.append(V('C08', 'late_when_idle', f"{name}: system idle at its planned start {planned} but it began at {s['t']}"))
        if s['t'] > t0 + EPS:
            tr.count('postponed_starts')
        else:
            tr.count('ontime_starts')
    return out


# ---------------------------------------------------------------- C09

def C09(tr):
    out = online(tr, 'C09')
    a = tr.sc['alg']
    if a['kind'] != 'batch':
        return out
    n = len(tr.sc['machines'])
    so = scenario_obs(tr)
    for (name, size, t) in tr.reservation_sizes:
        if a.get('split'):
            lo, hi = so[name]['split']
            if size > hi or size < lo:
                out.append(V('C09', 'size_split', f"reservation for {name} of {size} machines outside its split [{lo}, {hi}]"))
        else:
            if size > n // a['parts']:
                out.append(V('C09', 'size_max', f"reservation for {name} of {size} machines > floor({n}/{a['parts']})"))
        if size < a['min']:
            out.append(V('C09', 'size_min', f"reservation for {name} of {size} machines < minimum {a['min']}"))
    for name, rec in tr.obs.items():
        if rec['dequeued_at'] is not None and rec.get('release_check') is not None:
            for msg in rec['release_check']:
                out.append(V('C09', 'not_released', msg))
        if rec['dequeued_at'] is not None and name not in [x[0] for x in tr.reservation_sizes]:
            out.append(V('C09', 'ran_without_reservation', f"{name}: workflow completed under batch scheduling without any reservation"))
    return out


# ---------------------------------------------------------------- C12

C12_COLS = ['available_resources', 'ingest_resources', 'running_tasks', 'finished_tasks',
            'provisioned_observations', 'hot_buffer', 'cold_buffer', 'stored',
            'observations_waiting', 'observations_finished', 'scheduler_observation_queue']


def C12(tr, upto=None):
    out = []
    df = tr.df
    if df is None:
        return out
    nsteps = istep(tr.final_now)
    if len(df) != nsteps:
        out.append(V('C12', 'row_count', f"{len(df)} rows for {nsteps} simulated steps"))
    if list(df.index) != list(range(len(df))):
        out.append(V('C12', 'row_index', "row index is not 0..n-1"))
    for c in C12_COLS:
        if c not in df.columns:
            out.append(V('C12', 'missing_column', f"column {c} missing"))
            return out
    cols = {c: list(df[c]) for c in C12_COLS}
    for t in range(min(len(df), nsteps)):
        snap = tr.snaps.get(t)
        if snap is None:
            continue
        for c in C12_COLS:
            if c in ('cold_buffer', 'hot_buffer', 'stored') and tr.tier_moves:
                continue
            got = cols[c][t]
            if got != snap[c]:
                out.append(V('C12', f'col_{c}', f"row {t}: {c} reported {got}, true {snap[c]}"))
                if len(out) > 20:
                    return out
    return out


# ---------------------------------------------------------------- C13

LIFECYCLE = [('instrument', 'started', 'telescope'), ('instrument', 'finished', 'telescope'),
             ('buffer', 'added', 'buffer'), ('buffer', 'removed', 'buffer'),
             ('scheduler', 'added', 'queue'), ('scheduler', 'removed', 'queue'),
             ('scheduler', 'started', 'allocation'), ('scheduler', 'stopped', 'allocation')]


def C13(tr):
    out = []
    ev = tr.events_df
    if ev is None or tr.status not in ('completed', 'budget'):
        return out
    so = scenario_obs(tr)
    u = unit_factor(tr.sc.get('unit', 'seconds'))
    rows = []
    if len(ev):
        for r in ev.to_dict('records'):
            rows.append(r)
    times_all = [r['time'] for r in rows]
    if any(times_all[i] > times_all[i + 1] for i in range(len(times_all) - 1)):
        out.append(V('C13', 'log_order', "event log times are not non-decreasing"))
    partial = getattr(tr, 'partial', False)
    for name, rec in tr.obs.items():
        e = [r for r in rows if r['observation'] == name]

        def times(k):
            return [r['time'] for r in e if (r['actor'], r['event'], r['resource']) == k]
        truth = {
            LIFECYCLE[0]: rec['begin'], LIFECYCLE[1]: rec['finish'],
            LIFECYCLE[2]: rec['deposits'][0][0] if rec['deposits'] else None,
            LIFECYCLE[3]: rec['freed_at'],
            LIFECYCLE[4]: rec['queued_at'], LIFECYCLE[5]: rec['dequeued_at'],
            LIFECYCLE[6]: rec['alloc_started_at'],
            LIFECYCLE[7]: rec['mark_calls'][0][0] if rec['mark_calls'] else None,
        }
        got = {}
        for k in LIFECYCLE:
            ts = times(k)
            want = truth[k]
            if want is None:
                if ts and not partial:
                    out.append(V('C13', 'spurious_entry', f"{name}: log has {k} at {ts} but that transition never happened"))
                continue
            if partial and tr.final_now is not None and want >= tr.final_now - 2:
                continue          # cut-off run: the last steps' entries have not been recorded by the monitor yet
            if len(ts) != 1:
                out.append(V('C13', 'entry_count', f"{name}: {len(ts)} log entries for {k[0]}/{k[2]} {k[1]} (happened once, at {want})"))
                continue
            got[k] = ts[0]
            if ts[0] != int(want):
                out.append(V('C13', 'entry_time', f"{name}: {k[0]}/{k[2]} {k[1]} logged at {ts[0]}, happened at {want}"))
        L = LIFECYCLE
        # 'finished' exactly one duration after 'started' - also judged on a run that was cut off by the step
        # budget, as soon as the clock is past that moment (the monitor records a step's entries in the next step)
        if rec['begin'] is not None and tr.final_now is not None:
            due = rec['begin'] + so[name]['duration'] // u
            if tr.final_now > due + 2 and not times(L[1]):
                out.append(V('C13', 'finished_missing', f"{name}: started at {rec['begin']}, duration {so[name]['duration'] // u}: no 'telescope finished' entry although the clock is at {tr.final_now}"))
        chain = [L[0], L[4], L[6], L[7], L[5]]
        seq = [got[k] for k in chain if k in got]
        if any(seq[i] > seq[i + 1] for i in range(len(seq) - 1)):
            out.append(V('C13', 'causal_order', f"{name}: causal chain times {seq}"))
        if L[2] in got and L[0] in got and got[L[2]] != got[L[0]]:
            out.append(V('C13', 'buffer_added_time', f"{name}: buffer added {got[L[2]]} != started {got[L[0]]}"))
        if L[3] in got and L[7] in got and got[L[3]] != got[L[7]]:
            out.append(V('C13', 'buffer_removed_time', f"{name}: buffer removed {got[L[3]]} != allocation stopped {got[L[7]]}"))
        if L[1] in got and L[0] in got and got[L[1]] != got[L[0]] + so[name]['duration'] // u:
            out.append(V('C13', 'finished_time', f"{name}: finished {got[L[1]]} != started {got[L[0]]} + duration {so[name]['duration'] // u}"))
    return out


# ---------------------------------------------------------------- C15 (simulation part)

def C15_sim(tr):
    out = []
    delays = tr.sc.get('delays') or {}
    if not delays:
        return out
    view = workflow_view(tr)
    df = tr.df
    col = list(df['schedule_status']) if df is not None and 'schedule_status' in df.columns else None
    for key, extra in delays.items():
        name, nid = key.rsplit(':', 1)
        nid = int(nid)
        rec = view.get(name, {}).get(nid)
        if not rec or not rec['works'] or 'aft' not in rec['works'][0]:
            continue
        tr.count('delayed_tasks_finished')
        task = rec['plan']['obj']
        if not task.delay_flag:
            out.append(V('C15', 'not_flagged', f"{name}: node {nid} delayed by {extra} but not flagged"))
        a = rec['allocs'][0] if rec['allocs'] else None
        if a and a['end'] is not None and col is not None:
            first = istep(a['end']) + 2
            bad = [t for t in range(first, len(col)) if col[t] != 'DELAYED']
            if bad:
                out.append(V('C15', 'status_not_delayed', f"{name}: node {nid} (delayed) completed at {a['end']} but schedule_status at rows {bad[:5]} is not DELAYED"))
            if tr.status == 'completed' and str(tr.sim.scheduler.schedule_status.value) != 'DELAYED':
                out.append(V('C15', 'final_status', f"{name}: node {nid} delayed, final schedule status {tr.sim.scheduler.schedule_status}"))
    return out


# ---------------------------------------------------------------- C17

def C17(tr):
    out = []
    if tr.sc['alg']['kind'] != 'dynamic':
        return out
    for name, nodes in workflow_view(tr).items():
        for nid, rec in nodes.items():
            planned = rec['plan']['machine']
            ms = {w['machine'] for w in rec['works']} | {a['machine'] for a in rec['allocs']}
            for m in ms:
                if m != planned:
                    out.append(V('C17', 'migrated', f"{name}: node {nid} planned on {planned} executed on {m}"))
            if len(ms) > 1:
                out.append(V('C17', 'two_machines', f"{name}: node {nid} ran on {sorted(ms)}"))
    return out


def C17_forced_waits(tr):
    """rounds in which a ready task's planned machine was held while another machine was free"""
    n = 0
    for name, nodes in workflow_view(tr).items():
        for nid, rec in nodes.items():
            if not rec['allocs']:
                continue
            a = rec['allocs'][0]
            # the task became ready when its last predecessor's allocation ended
            n += 0
    return tr.counts.get('forced_wait_rounds', 0)


# ---------------------------------------------------------------- C19

def C19(tr):
    return online(tr, 'C19')


ORACLES = {'C01': C01, 'C02': C02, 'C03': C03, 'C04': C04, 'C05': C05, 'C06': C06, 'C07': C07,
           'C08': C08, 'C09': C09, 'C12': C12, 'C13': C13, 'C15': C15_sim, 'C17': C17, 'C19': C19}


def all_violations(tr, props=None):
    out = []
    for p, f in ORACLES.items():
        if props is None or p in props:
            out += f(tr)
    return out
