import sys, simpy, logging, warnings, time, os
os.environ['TQDM_DISABLE']='1'
warnings.filterwarnings("ignore")
import pandas as pd
pd.set_option('display.width',250); pd.set_option('display.max_columns',50); pd.set_option('display.max_rows',500)
from mk import mkcfg
from topsim.core.simulation import Simulation
from topsim.user.telescope import Telescope
from topsim.user.plan.batch_planning import BatchPlanning
from topsim.user.schedule.batch_allocation import BatchProcessing
from topsim.user.schedule.queue_allocation import QueueProcessing
def run(alg, **kw):
    cfg = mkcfg("/tmp/scratch/c2", **kw)
    env = simpy.Environment()
    sim = Simulation(env, cfg, Telescope, BatchPlanning('batch'), 'batch', alg, timestamp=0)
    df, tasks = sim.start()
    return sim, df, tasks
if __name__=='__main__':
    obs=[dict(name="o1", start=0, duration=5, instrument_demand=10, data_product_rate=10, ingest=2),
         dict(name="o2", start=3, duration=4, instrument_demand=10, data_product_rate=10, ingest=2)]
    t=time.time()
    alg = BatchProcessing(min_resources_per_workflow=1,max_resource_partitions=2) if sys.argv[1]=='batch' else QueueProcessing()
    sim, df, tasks = run(alg, obs=obs, n_machines=6, max_ingest=4)
    print(time.time()-t)
    print(df.drop(columns=['planning','scheduling','config','delay','o1-algtime','o2-algtime','observations_delayed'],errors='ignore'))
    print(tasks.drop(columns=['planning','scheduling','config']))
    print(sim.monitor.events)
    print(sim.env.now, sim.buffer.hot[0].current_capacity)
