import sys, simpy, logging, warnings
warnings.filterwarnings("ignore")
import pandas as pd
pd.set_option('display.width',250); pd.set_option('display.max_columns',50); pd.set_option('display.max_rows',500)
from mk import mkcfg
from topsim.core.simulation import Simulation
from topsim.user.telescope import Telescope
from topsim.user.plan.batch_planning import BatchPlanning
from topsim.user.schedule.batch_allocation import BatchProcessing
from topsim.user.schedule.queue_allocation import QueueProcessing
import tqdm
cfg = mkcfg("/tmp/scratch/c1")
env = simpy.Environment()
alg = BatchProcessing(min_resources_per_workflow=1) if sys.argv[1]=='batch' else QueueProcessing()
sim = Simulation(env, cfg, Telescope, BatchPlanning('batch'), 'batch', alg, timestamp=0)
df, tasks = sim.start()
print(df.drop(columns=['planning','scheduling','config','delay'],errors='ignore'))
print(tasks)
print(sim.monitor.events)
print(env.now)
