from probes2 import *
wf = {"nodes": [{"id": 0, "comp": 10}], "edges": []}
obs = [dict(name=f"o{i}", start=0, duration=1, instrument_demand=1, data_product_rate=40, ingest=1, wf=wf) for i in range(3)]
sc = dict(flops=[10]*4, bw=[10]*4, max_ingest=3, arrays=4, obs=obs, hot=100, cold=100, hot_rate=40, cold_rate=40, alg='queue', parts=1, minres=1, timestep='seconds')
rec, sim, snaps = run_probed(sc, '/tmp/scratch/kf2w', cap_mult=1)
print(dict(rec.v)); print(sim.monitor.df[['hot_buffer','cold_buffer','stored']].head(8).to_string())
