import json, os
from probe import *
rng = random.Random(3)
sc = rand_scenario(rng)
def parse(unit, mult):
    s = copy.deepcopy(sc); s['timestep'] = unit
    for o in s['obs']:
        o['start'] *= 3600*7; o['duration'] *= 3600*7
    p = write_cfg(s, '/tmp/scratch/c16w')
    from topsim.core.config import Config
    c = Config(p)
    m, bw = c.parse_cluster_config(); ta, pipes, obs, mi = c.parse_instrument_config('telescope'); hot, cold = c.parse_buffer_config()
    return dict(cpu=[x.cpu/mult for x in m], bw=[x.bandwidth/mult for x in m], sysbw=bw/mult, starts=[o.est*mult for o in obs], durs=[o.duration*mult for o in obs], rates=[o.ingest_data_rate/mult for o in obs],
                vol=[o.ingest_data_rate*o.duration for o in obs], hotrate=hot[0].max_ingest_data_rate/mult, coldrate=cold[0].max_data_rate/mult, hotcap=hot[0].total_capacity, coldcap=cold[0].total_capacity, ta=ta, mi=mi, dem=[o.demand for o in obs])
ref = parse('seconds', 1)
for unit, mult in [('minutes', 60), ('hours', 3600), (60, 60), (7, 7), (3600, 3600), ('seconds', 1), ('Minutes', 1), (60.0, 1)]:
    got = parse(unit, mult)
    print(unit, got == ref, [k for k in ref if ref[k] != got[k]])
