import sys, json, hashlib, random
from probes2 import *
sc = json.load(open(sys.argv[1]))
rec, sim, snaps = run_probed(sc, sys.argv[2])
df = sim.monitor.df.drop(columns=[c for c in sim.monitor.df.columns if 'algtime' in c]+['config'])
t = sim._generate_final_task_data().drop(columns=['config'])
print(hashlib.md5((df.to_csv()+t.sort_index().to_csv()+sim.monitor.events.to_csv()).encode()).hexdigest(), dict(rec.v))
