import simpy, os
os.environ['TQDM_DISABLE']='1'
from probe import *
from topsim.core.config import Config
rng = random.Random(1); sc = rand_scenario(rng); sc['flops']=[10,10,10]; sc['bw']=[10,10,10]
p = write_cfg(sc, '/tmp/scratch/c02w'); cfg = Config(p)
env = simpy.Environment(); cl = Cluster(env, cfg)
class O: name='oX'; duration=5
env.process(cl.provision_ingest_resources(1, O))
env.run(until=1)
print(cl._resources, cl._usage_data)
m = cl._resources['ingest'][0]
t = Task('w_0_0', 0, 3, None, [], 30, 0, {}, None)
env.process(cl.allocate_task_to_cluster(t, m, None, 'oY'))
try:
    env.run(until=2); print('accepted!', cl._resources, cl._tasks['running'], cl._usage_data)
    env.run(until=12); print(cl._resources, cl._usage_data)
except Exception as e:
    import traceback; traceback.print_exc()
