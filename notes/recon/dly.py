import sys, random, collections, json
from probes2 import *
import probes2
from topsim.core.delay import DelayModel
class Inj(DelayModel):
    def __init__(self, extra): super().__init__(1.0, 'normal', DelayModel.DelayDegree.LOW); self.extra = extra
    def generate_delay(self, rt, n=100): return rt + self.extra
class DBatch(BatchPlanning):
    def __init__(self, table): super().__init__('batch'); self.table = table
    def generate_plan(self, *a):
        plan = super().generate_plan(*a)
        for t in plan.tasks: t.delay = Inj(self.table.get((plan.id, t.graph_id), 0))
        return plan
class DList(ListPlanning):
    def __init__(self, table): super().__init__('list'); self.table = table
    def generate_plan(self, *a):
        plan = super().generate_plan(*a)
        for t in plan.tasks: t.delay = Inj(self.table.get((plan.id, t.graph_id), 0))
        return plan
def mk(sc, d, table):
    cfg = write_cfg(sc, d); env = TraceEnv(); a = sc['alg']
    if a == 'batch': plan, alg = DBatch(table), BatchProcessing(max_resource_partitions=sc['parts'], min_resources_per_workflow=sc['minres'])
    elif a == 'queue': plan, alg = DBatch(table), QueueProcessing()
    elif a == 'dynamic': plan, alg = DList(table), DynamicSchedulingFromPlan()
    else: plan, alg = DList(table), GreedySchedulingFromPlan()
    return Simulation(env, cfg, Telescope, plan, a, alg, timestamp=0), env
seed = int(sys.argv[1]); N = int(sys.argv[2]); rng = random.Random(seed); cnt = collections.Counter(); ex = {}
for i in range(N):
    sc = rand_scenario(rng)
    table = {(o['name'], nd['id']): rng.choice([0, 0, 1, 2, 7]) for o in sc['obs'] for nd in o['wf']['nodes']}
    for o in sc['obs']:
        for nd in o['wf']['nodes']: nd['_extra'] = table[(o['name'], nd['id'])]
    probes2.make_sim = lambda sc, d: mk(sc, d, table)
    rec, sim, snaps = run_probed(sc, '/tmp/scratch/dlyw')
    for pid, msgs in rec.v.items():
        cnt[(pid, sc['alg'])] += 1; ex.setdefault(pid, (msgs[0], sc))
    # C15 flags
    anyd = False
    for w in probes2.CUR['work']:
        if 'ingest' in w['task']: continue
        o, _, n = w['task'].split('_'); e = table[(o, int(n))]
        if e > 0:
            anyd = True
            if not w['flag']: cnt['C15 unflagged'] += 1
    if anyd and 'C05' not in rec.v and str(sim.scheduler.schedule_status.value) != 'DELAYED': cnt['C15 status not delayed'] += 1
    cnt['runs'] += 1
for k, v in sorted(cnt.items(), key=str): print(k, v)
for p, (m, sc) in ex.items(): print(p, m)
