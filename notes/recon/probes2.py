import collections, math
from probe import *
import topsim.core.task as task_mod
import topsim.core.cluster as cluster_mod
import topsim.core.scheduler as sched_mod
import topsim.core.monitor as mon_mod

class Rec:
    def __init__(self): self.v = collections.defaultdict(list)
    def add(self, pid, msg): self.v[pid].append(msg)

CUR = {'rec': None, 'env': None, 'sim': None, 'work': [], 'active': {}, 'allocs': [], 'holders': {}}

_orig_do_work = Task.do_work
def do_work(self, env, machine, predecessor_allocations=None):
    st = CUR
    rec = dict(task=self.id, machine=machine.id, enter=env.now, enter_seq=getattr(env,'seq',0), preds=[p.id for p in (predecessor_allocations or [])])
    st['work'].append(rec)
    act = st['active'].setdefault(machine.id, [])
    if act: st['rec'].add('C01', f"do_work overlap on {machine.id}: {self.id} enters while {act} active at t={env.now}")
    act.append(self.id)
    try:
        yield from _orig_do_work(self, env, machine, predecessor_allocations)
    finally:
        act.remove(self.id)
        rec.update(exit=env.now, exit_seq=getattr(env,'seq',0), ast=self.ast, aft=self.aft, duration=self.duration, flag=self.delay_flag)
Task.do_work = do_work

_orig_alloc = Cluster.allocate_task_to_cluster
def alloc(self, task, machine, predecessor_allocations=None, observation=None, ingest=False, c='default'):
    st = CUR
    r = dict(task=task.id, machine=machine.id, t=self.env.now, obs=observation, ingest=ingest,
             pool=('available' if machine in self._resources['available'] else 'ingest' if machine in self._resources['ingest'] else 'occupied' if machine in self._resources['occupied'] else
                   [o for o, l in self._resources['idle'].items() if machine in l]))
    st['allocs'].append(r)
    h = st['holders'].setdefault(machine.id, [])
    try:
        first = True
        gen = _orig_alloc(self, task, machine, predecessor_allocations, observation, ingest, c)
        res = yield from gen
        return res
    finally:
        r['end'] = self.env.now
Cluster.allocate_task_to_cluster = alloc

def check_partition(sim, rec):
    r = sim.cluster._resources
    allm = list(r['available']) + list(r['ingest']) + list(r['occupied']) + [m for l in r['idle'].values() for m in l]
    ids = [m.id for m in allm]
    if sorted(ids) != sorted(m.id for m in sim.cluster.machines):
        rec.add('C02', f"partition broken at t={sim.env.now}: {r}")

def truth(sim):
    r = sim.cluster._resources; t = sim.cluster._tasks
    return dict(available_resources=len(r['available']) + sum(len(l) for l in r['idle'].values()),
                ingest_resources=len(r['ingest']), running_tasks=len(t['running']),
                finished_tasks=sum(1 for v in t['finished'].values() if v),
                provisioned_observations=len(r['idle']),
                hot_buffer=sim.buffer.hot[0].current_capacity, cold_buffer=sim.buffer.cold[0].current_capacity,
                stored=len(sim.buffer.hot[0].observations['stored']) + len(sim.buffer.cold[0].observations['stored']),
                observations_waiting=sum(o.status == RunStatus.WAITING for o in sim.instrument.observations),
                observations_finished=sum(o.status == RunStatus.FINISHED for o in sim.instrument.observations),
                scheduler_observation_queue=len(sim.scheduler.observation_queue))

def run_probed(sc, d, cap_mult=3):
    from explore1 import bound
    rec = Rec()
    sim, env = make_sim(sc, d)
    CUR.update(rec=rec, env=env, sim=sim, work=[], active={}, allocs=[], holders={})
    snaps = {}
    def after():
        check_partition(sim, rec)
        hot = sim.buffer.hot[0]; cold = sim.buffer.cold[0]
        if hot.current_capacity < 0 or hot.current_capacity > hot.total_capacity: rec.add('C07', f"hot out of range {hot.current_capacity} t={env.now}")
        if cold.current_capacity < 0 or cold.current_capacity > cold.total_capacity: rec.add('C07', f"cold out of range {cold.current_capacity} t={env.now}")
        if sim.instrument.telescope_use > sim.instrument.total_arrays or sim.instrument.telescope_use < 0: rec.add('C08', f"arrays {sim.instrument.telescope_use} t={env.now}")
        if len(sim.cluster._resources['ingest']) > sim.instrument.max_ingest: rec.add('C08', f"ingest pool {len(sim.cluster._resources['ingest'])} > max t={env.now}")
    env.after_event.append(after)
    def eos(t):
        snaps[t + 1] = truth(sim)   # state at end of step t == beginning of step t+1
        # idle queries
        cl = sim.cluster
        true_idle = (len(cl._tasks['running']) == 0 and not cl._resources['occupied'] and not cl._resources['ingest'])
        if cl.is_idle() and not true_idle: rec.add('C19', f"cluster.is_idle True while busy t={t}")
    env.end_of_step.append(eos)
    B = bound(sc)
    sim.running = True
    env.process(sim.monitor.run()); env.process(sim.instrument.run()); env.process(sim.cluster.run())
    sim.scheduler.start(); env.process(sim.scheduler.run()); env.process(sim.buffer.run())
    status = 'OK'
    try:
        while not sim.is_finished():
            if env.now > cap_mult * B + 50: status = 'HANG'; break
            env.run(env.now + 1)
    except Exception as e:
        tb = traceback.extract_tb(e.__traceback__)
        fr = [f for f in tb if '/topsim/' in f.filename]
        status = ('EXC', type(e).__name__, str(e)[:60], fr[-1].filename.split('/')[-1] + ':' + str(fr[-1].lineno) if fr else '')
    if status != 'OK':
        rec.add('C05', str(status)); return rec, sim, snaps
    if env.now > B: rec.add('C05', f"over bound {env.now}>{B}")
    sim.monitor.collate_events()
    df = sim.monitor.df; tasks = sim._generate_final_task_data(); ev = sim.monitor.events
    # C12
    if len(df) != env.now: rec.add('C12', f"rows {len(df)} != steps {env.now}")
    for t in range(1, min(len(df), int(env.now))):
        row = df.iloc[t]
        for k, v in snaps.get(t, {}).items():
            if row[k] != v:
                rec.add('C12', f"row {t} col {k}: reported {row[k]} true {v}"); break
    # C04
    ids = [w['task'] for w in CUR['work']]
    if len(ids) != len(set(ids)): rec.add('C04', f"task executed twice")
    exp = sum(o['ingest'] + len(o['wf']['nodes']) for o in sc['obs'])
    if len(ids) != exp: rec.add('C04', f"executed {len(ids)} expected {exp}")
    if len(tasks) != exp: rec.add('C04', f"task table rows {len(tasks)} expected {exp}")
    cl = sim.cluster
    if cl._tasks['running'] or cl._resources['occupied'] or cl._resources['ingest'] or cl._resources['idle'] or len(cl._resources['available']) != len(cl.machines) or cl.num_provisioned_obs != 0:
        rec.add('C04', f"not quiescent cluster {cl._resources} prov={cl.num_provisioned_obs}")
    if sim.buffer.hot[0].current_capacity != sim.buffer.hot[0].total_capacity or sim.buffer.cold[0].current_capacity != sim.buffer.cold[0].total_capacity:
        rec.add('C04', "buffers not full")
    if sim.scheduler.provision_ingest != 0: rec.add('C05x', f"provision_ingest leak {sim.scheduler.provision_ingest}")
    # C03 / C06
    byid = {w['task']: w for w in CUR['work']}
    allocs = {a['task']: a for a in CUR['allocs']}
    mach = {m.id: m for m in cl.machines}
    for o in sc['obs']:
        nodes = {nd['id']: nd for nd in o['wf']['nodes']}
        name = o['name']
        tid = {}
        for w in CUR['work']:
            if w['task'].startswith(name + '_') and 'ingest' not in w['task']:
                tid[int(w['task'].split('_')[-1])] = w
        for (s, t, x) in o['wf']['edges']:
            if s in tid and t in tid:
                if tid[t]['ast'] < tid[s]['aft']: rec.add('C03', f"{name}: {t} starts {tid[t]['ast']} before pred {s} aft {tid[s]['aft']}")
        for n, w in tid.items():
            m = mach[w['machine']]
            arr = allocs[w['task']]['t']
            for (s, t, x) in o['wf']['edges']:
                if t == n and tid[s]['machine'] != w['machine']:
                    arr = max(arr, tid[s]['aft'] + x / m.bandwidth)
            if abs(w['ast'] - arr) > 1e-9: rec.add('C03', f"{name}: task {n} ast {w['ast']} expected {arr}")
            nd = nodes[n]
            d = max(int(nd['comp'] / m.cpu), int(nd.get('task_data', 0) / m.bandwidth))
            d = d + nd.get('_extra', 0)
            if abs((w['aft'] - w['ast']) - max(1, d)) > 1e-9: rec.add('C06', f"{name}: task {n} ran {w['aft']-w['ast']} expected {max(1,d)} (comp {nd['comp']} cpu {m.cpu})")
        for w in CUR['work']:
            if w['task'].startswith(name + '_ingest'):
                if w['aft'] - w['ast'] != o['duration']: rec.add('C06', f"ingest ran {w['aft']-w['ast']} vs {o['duration']}")
    # C09 batch
    if sc['alg'] == 'batch':
        for a in CUR['allocs']:
            if not a['ingest'] and a['pool'] != [a['obs']]: rec.add('C09', f"alloc from pool {a['pool']} for {a['obs']}")
    # C13
    if len(ev):
        for o in sc['obs']:
            e = ev[ev['observation'] == o['name']]
            def times(actor, event, resource): return list(e[(e['actor'] == actor) & (e['event'] == event) & (e['resource'] == resource)]['time'])
            want = [('instrument','started','telescope'),('instrument','finished','telescope'),('buffer','added','buffer'),('buffer','removed','buffer'),('scheduler','added','queue'),('scheduler','removed','queue'),('scheduler','started','allocation'),('scheduler','stopped','allocation')]
            for wv in want:
                ts = times(*wv)
                if len(ts) != 1: rec.add('C13', f"{o['name']} {wv} count {len(ts)}")
    return rec, sim, snaps
