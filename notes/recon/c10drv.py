import subprocess, json, random, sys, os
from probe import rand_scenario
rng = random.Random(int(sys.argv[1])); bad = 0; n=int(sys.argv[2]); per={}
for i in range(n):
    sc = rand_scenario(rng)
    json.dump(sc, open('/tmp/scratch/c10sc.json','w'))
    outs = set()
    for hs in ['0','1','7']:
        env = dict(os.environ, PYTHONHASHSEED=hs, PYTHONPATH=os.environ['PYTHONPATH'])
        o = subprocess.run(['/venv/bin/python','c10.py','/tmp/scratch/c10sc.json','/tmp/scratch/c10w'],capture_output=True,text=True,env=env).stdout.strip().split('\n')[-1]
        outs.add(o.split(' ')[0])
    per.setdefault(sc['alg'],[0,0]); per[sc['alg']][0]+=1
    if len(outs)>1: per[sc['alg']][1]+=1
print(per)
