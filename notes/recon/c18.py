import simpy, math, collections, itertools, json, os
os.environ['TQDM_DISABLE']='1'
from topsim.core.buffer import Buffer, HotBuffer, ColdBuffer
from topsim.core.instrument import Observation, RunStatus
class Cfg:
    def __init__(s, hc, hr, cc, cr): s.a=(hc,hr,cc,cr)
    def parse_buffer_config(s):
        hc,hr,cc,cr=s.a; return {0: HotBuffer(hc,hr)}, {0: ColdBuffer(cc,cr)}
def trial(S, hr, cr, hc, cc, direction):
    env = simpy.Environment()
    buf = Buffer(env, None, None, Cfg(hc,hr,cc,cr))
    o = Observation('x', 0, 1, 1, None, 1); o.total_data_size = S
    src, dst = (buf.hot[0], buf.cold[0]) if direction=='h2c' else (buf.cold[0], buf.hot[0])
    src.observations['stored'].append(o); src.current_capacity -= S
    before = (buf.hot[0].current_capacity, buf.cold[0].current_capacity)
    p = env.process(buf.move_hot_to_cold(0) if direction=='h2c' else buf.move_cold_to_hot(0))
    traj = []
    try:
        for t in range(1, 200):
            env.run(until=t)
            traj.append((buf.hot[0].current_capacity, buf.cold[0].current_capacity))
            if p.triggered: break
    except Exception as e:
        return ('EXC', type(e).__name__, str(e)[:40])
    rate = min(hr, cr)
    steps = len(traj) - 1 if len(traj) > 1 else len(traj)
    issues = []
    for h, c in traj:
        if h + c != before[0] + before[1]: issues.append('not conserved'); break
    if p.value is False:
        if traj[-1] != before or o not in src.observations['stored'] or src.observations['transfer'] is not None: issues.append('refusal changed state')
        return ('REFUSED', tuple(issues))
    exp = math.ceil(S / rate)
    nsteps = sum(1 for i in range(len(traj)) if (traj[i] != (traj[i-1] if i else before)))
    if nsteps != exp: issues.append(f'steps {nsteps} vs ceil {exp}')
    # per step rate
    prev = before
    for h, c in traj:
        d = abs(h - prev[0]); prev = (h, c)
        if d > rate: issues.append(f'moved {d} > slower rate {rate}'); break
    if not (o in dst.observations['stored'] and o not in src.observations['stored'] and src.observations['transfer'] is None and dst.observations['transfer'] is None): issues.append('not stored in exactly dst')
    fin = traj[-1]
    exp_fin = (before[0] + S, before[1] - S) if direction == 'h2c' else (before[0] - S, before[1] + S)
    if fin != exp_fin: issues.append(f'final {fin} vs {exp_fin}')
    return ('DONE', tuple(issues))
res = collections.Counter(); ex = {}
for S, hr, cr, direction in itertools.product([1, 5, 10, 11, 30], [1, 3, 10, 50], [1, 3, 10, 50], ['h2c', 'c2h']):
    for (hc, cc) in [(100, 100), (S, S), (100, S - 1), (S - 1, 100)]:
        if hc < S and direction == 'h2c': continue
        if cc < S and direction == 'c2h': continue
        r = trial(S, hr, cr, hc, cc, direction)
        k = (direction, 'hr<cr' if hr < cr else 'hr>=cr', r)
        res[k] += 1; ex.setdefault(k, (S, hr, cr, hc, cc))
for k, v in sorted(res.items(), key=str): print(k, v, ex[k])
