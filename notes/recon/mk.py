import json, os, sys
def mkcfg(d, n_machines=4, obs=None, hot=1000, cold=1000, hot_rate=100, cold_rate=50, max_ingest=2, arrays=36, timestep='seconds', wf=None, flops=10, bw=10):
    os.makedirs(d, exist_ok=True)
    wf = wf or {"nodes":[{"id":0,"comp":30},{"id":1,"comp":20},{"id":2,"comp":10},{"id":3,"comp":40}],
                "edges":[(0,1,20),(0,2,10),(1,3,30),(2,3,5)]}
    g = {"directed": True, "multigraph": False, "graph": {}, "nodes": wf["nodes"],
         "edges":[{"source":s,"target":t,"transfer_data":x} for s,t,x in wf["edges"]]}
    g["links"]=g["edges"]
    json.dump({"header":{}, "graph":g}, open(f"{d}/wf.json","w"))
    obs = obs or [dict(name="o1", start=0, duration=5, instrument_demand=10, data_product_rate=10, ingest=2)]
    cfg = {"instrument":{"telescope":{"total_arrays":arrays,"max_ingest_resources":max_ingest,
        "pipelines":{o["name"]:{"workflow":"wf.json","ingest_demand":o["ingest"]} for o in obs},
        "observations":[{k:v for k,v in o.items() if k!="ingest"} for o in obs]}},
      "cluster":{"header":{}, "system":{"resources":{f"m{i}":{"flops":flops if not isinstance(flops,list) else flops[i],"compute_bandwidth":bw} for i in range(n_machines)},"system_bandwidth":1.0}},
      "buffer":{"hot":{"capacity":hot,"max_ingest_rate":hot_rate},"cold":{"capacity":cold,"max_data_rate":cold_rate}},
      "timestep":timestep}
    json.dump(cfg, open(f"{d}/sim.json","w"), indent=1)
    return f"{d}/sim.json"
