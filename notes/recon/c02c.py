import simpy, os, random, collections
os.environ['TQDM_DISABLE']='1'
from probe import *
from topsim.core.config import Config
def settle(env):
    while env.peek() == env.now: env.step()
def pools(cl):
    r = cl._resources
    return (tuple(m.id for m in r['available']), tuple(m.id for m in r['ingest']), tuple(m.id for m in r['occupied']), tuple(sorted((k, tuple(m.id for m in v)) for k, v in r['idle'].items())))
class O:
    def __init__(s, n, d): s.name = n; s.duration = d
def trial(seed, repo_note=''):
    rng = random.Random(seed)
    sc = rand_scenario(random.Random(1)); n = rng.randint(1, 4); sc['flops'] = [10]*n; sc['bw'] = [10]*n
    cfg = Config(write_cfg(sc, '/tmp/scratch/c02bw')); env = simpy.Environment(); cl = Cluster(env, cfg); env.process(cl.run())
    shadow = {m.id: 'free' for m in cl.machines}; res = set(); tcount = 0; log = []
    issues = []
    for step in range(rng.randint(1, 12)):
        op = rng.choice(['prov', 'rel', 'ingest', 'alloc', 'alloc', 'adv'])
        before = pools(cl)
        try:
            if op == 'prov':
                name = f"r{rng.randint(0,2)}"
                if name in res: continue
                size = rng.randint(1, n + 1); log.append((op, name, size))
                cl.provision_batch_resources(size, name); res.add(name)
            elif op == 'rel':
                name = f"r{rng.randint(0,2)}"; log.append((op, name)); cl.release_batch_resources(name); 
                if not any(True for m in cl.machines if False): pass
            elif op == 'ingest':
                d = rng.randint(1, n + 1); tcount += 1; log.append((op, d)); env.process(cl.provision_ingest_resources(d, O(f"i{tcount}", rng.randint(1, 3)))); settle(env)
            elif op == 'alloc':
                m = rng.choice(cl.machines); tcount += 1; obs = rng.choice([None, 'r0', 'r1', 'r2'])
                t = Task(f"t_{tcount}", 0, rng.randint(0, 3), None, [], 0, 0, {}, None); log.append((op, m.id, obs))
                env.process(cl.allocate_task_to_cluster(t, m, None, obs)); settle(env)
            else:
                log.append((op,)); env.run(until=env.now + 1); settle(env)
        except Exception as e:
            log.append(('raised', type(e).__name__))
            if pools(cl) != before and op != 'adv': issues.append(f"refused {op} changed pools")
            if op == 'adv': issues.append(f"exception during advance {type(e).__name__} {e}")
        r = cl._resources
        ids = [m.id for m in r['available']] + [m.id for m in r['ingest']] + [m.id for m in r['occupied']] + [m.id for l in r['idle'].values() for m in l]
        if sorted(ids) != sorted(m.id for m in cl.machines): issues.append('partition')
        df = cl.to_df().iloc[0]
        tr = dict(available_resources=len(r['available'])+sum(len(l) for l in r['idle'].values()), ingest_resources=len(r['ingest']), running_tasks=len(cl._tasks['running']), finished_tasks=sum(1 for v in cl._tasks['finished'].values() if v), provisioned_observations=len(r['idle']))
        for k, v in tr.items():
            if df[k] != v: issues.append(f"counter {k} reported {df[k]} true {v}"); break
        if cl.num_provisioned_obs != len(r['idle']): issues.append(f"num_provisioned_obs {cl.num_provisioned_obs} vs {len(r['idle'])}")
        if issues: break
    return issues, log
cnt = collections.Counter(); ex = {}
for s in range(3000):
    iss, log = trial(s)
    for i in iss: cnt[i[:50]] += 1; ex.setdefault(i[:50], log)
print(cnt)
for k, v in ex.items(): print(k, v)
