import sys, random, collections
from probes2 import *
import probes2
from topsim.user.telescope import Telescope
from topsim.core.scheduler import Scheduler
STARTS = []
_ob = Telescope.begin_observation
def begin(self, observation):
    sim = probes2.CUR['sim']; cl = sim.cluster; hot = sim.buffer.hot[0]; cold = sim.buffer.cold[0]
    STARTS.append(dict(obs=observation.name, now=self.env.now, est=observation.est, arrays_free=self.total_arrays - self.telescope_use, demand=observation.demand,
        avail=len(cl._resources['available']), ingest=len(cl._resources['ingest']), hot_free=hot.current_capacity, cold_free=cold.current_capacity,
        size=observation.ingest_data_rate * observation.duration, idle=(not cl._tasks['running'] and not sim.scheduler.observation_queue and hot.current_capacity == hot.total_capacity and self.telescope_use == 0)))
    return _ob(self, observation)
Telescope.begin_observation = begin
seed = int(sys.argv[1]); N = int(sys.argv[2]); rng = random.Random(seed); cnt = collections.Counter(); ex = {}
for i in range(N):
    sc = rand_scenario(rng); STARTS.clear()
    rec, sim, snaps = run_probed(sc, '/tmp/scratch/c08w')
    byname = {o['name']: o for o in sc['obs']}
    pend = collections.defaultdict(int)
    for s in STARTS:
        o = byname[s['obs']]; key = s['now']
        if s['now'] < s['est']: cnt['early'] += 1
        if s['arrays_free'] < s['demand']: cnt['arrays'] += 1
        if s['avail'] - pend[key] < o['ingest']: cnt['machines'] += 1; ex['machines'] = (s, sc)
        if s['ingest'] + pend[key] + o['ingest'] > sc['max_ingest']: cnt['max_ingest'] += 1
        if s['hot_free'] < s['size'] or s['cold_free'] < s['size']: cnt['buffer'] += 1
        pend[key] += o['ingest']
        cnt['starts'] += 1
        # on time when idle at due time
        if s['now'] > s['est']: cnt['late'] += 1
    # on-time: an observation due at est when system fully idle at beginning of step est
    for o in sc['obs']:
        t = o['start']; sn = snaps.get(t) if t > 0 else dict(running_tasks=0, scheduler_observation_queue=0, hot_buffer=sc['hot'], observations_waiting=len(sc['obs']), observations_finished=0)
        if sn is None: continue
        others_running = any(x['obs'] != o['name'] and x['now'] <= t < x['now'] + byname[x['obs']]['duration'] + 1 for x in STARTS)
        idle = sn['running_tasks'] == 0 and sn['scheduler_observation_queue'] == 0 and sn['hot_buffer'] == sc['hot'] and not others_running
        due_same = [x for x in sc['obs'] if x['start'] == t]
        if idle and len(due_same) == 1:
            cnt['idle-due'] += 1
            st = [x for x in STARTS if x['obs'] == o['name']][0]
            if st['now'] != t: cnt['idle-but-late'] += 1; ex['idle-late'] = (o['name'], st, sc)
print(cnt); print(ex)
