import collections, traceback
from topsim.core.delay import DelayModel
res = collections.Counter(); ex = {}
for dist in ['normal','poisson','uniform']:
    for deg in DelayModel.DelayDegree:
        for prob in [0.0, 0.1, 0.5, 1.0]:
            for seed in [0, 1, 20, 99]:
                for rt in [0, 1, 2, 3, 5, 11, 100]:
                    dm = DelayModel(prob, dist, deg, seed)
                    try:
                        a = dm.generate_delay(rt); b = DelayModel(prob, dist, deg, seed).generate_delay(rt)
                        k = 'ok'
                        if a < rt: k = 'shorter'
                        elif a != b: k = 'nondet'
                        elif (deg.value == 0 or prob == 0 or rt == 0) and a != rt: k = 'should-equal'
                    except Exception as e:
                        k = type(e).__name__ + ':' + str(e)[:50]
                    res[(dist, k)] += 1
                    ex.setdefault((dist, k), (deg.name, prob, seed, rt))
for k, v in sorted(res.items()): print(k, v, ex[k])
