import sys, random, collections, json
from probes2 import *
seed = int(sys.argv[1]); N = int(sys.argv[2])
rng = random.Random(seed)
cnt = collections.Counter(); ex = {}
for i in range(N):
    sc = rand_scenario(rng)
    rec, sim, snaps = run_probed(sc, f"/tmp/scratch/x{seed}")
    for pid, msgs in rec.v.items():
        key = (pid, sc['alg'])
        cnt[key] += 1
        ex.setdefault(pid, []).append((msgs[0], sc))
    cnt[('runs', sc['alg'])] += 1
for k, v in sorted(cnt.items()): print(k, v)
for pid, l in ex.items():
    seen = set()
    for m, sc in l:
        k = m[:40]
        if k in seen: continue
        seen.add(k); print(pid, m)
        if len(seen) > 5: break
json.dump({pid: [(m, sc) for m, sc in l[:5]] for pid, l in ex.items()}, open(f'/tmp/scratch/ex{seed}.json', 'w'))
