import sys, json
from probes2 import *
b = json.load(open('/tmp/scratch/ex7.json'))
m, sc = b['C05'][int(sys.argv[1])]
rec, sim, snaps = run_probed(sc, '/tmp/scratch/wd2', cap_mult=1)
print(dict(rec.v))
print(sim.monitor.events.to_string())
for o in sim.instrument.observations: print(o.name, o.status, o.est, o.ast, o.duration, o.total_data_size)
print('hot', sim.buffer.hot[0].current_capacity, sim.buffer.hot[0].total_capacity, {k:[x.name for x in v] if isinstance(v,list) else (v.name if v else None) for k,v in sim.buffer.hot[0].observations.items()})
print('cold', sim.buffer.cold[0].current_capacity, sim.buffer.cold[0].total_capacity, {k:[x.name for x in v] if isinstance(v,list) else (v.name if v else None) for k,v in sim.buffer.cold[0].observations.items()})
