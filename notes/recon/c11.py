import sys, random, json
from probe import *
def outputs(sim):
    df = sim.monitor.df.drop(columns=[c for c in sim.monitor.df.columns if 'algtime' in c])
    return df.to_csv(), sim._generate_final_task_data().to_csv(), sim.monitor.events.reset_index(drop=True).to_csv()
rng = random.Random(int(sys.argv[1])); bad = 0; N = int(sys.argv[2]); kinds = collections.Counter() if False else {}
import collections; kinds = collections.Counter()
for i in range(N):
    sc = rand_scenario(rng)
    sim, env = make_sim(sc, '/tmp/scratch/c11w'); sim.start(); F = int(env.now); ref0 = outputs(sim)
    sim, env = make_sim(sc, '/tmp/scratch/c11w'); sim.start(runtime=F); ref = outputs(sim)
    if ref != ref0: kinds['start(F)!=start()'] += 1
    k = rng.randint(1, max(1, F - 1))
    sim, env = make_sim(sc, '/tmp/scratch/c11w'); sim.start(runtime=k)
    t = k
    while t < F:
        t = min(F, t + rng.randint(1, 5)); sim.resume(until=t)
    got = outputs(sim)
    for nm, a, b in zip(['df', 'tasks', 'events'], ref, got):
        if a != b: kinds['pause ' + nm] += 1
    # last-step events present?
    sim.monitor.collate_events(); got2 = outputs(sim)
    if got2[2] != ref[2]: kinds['events after extra collate'] += 1
print(kinds)
