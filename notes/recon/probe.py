"""Scratch exploration harness (not framework): instrumented env + random scenarios."""
import os, json, random, simpy, warnings, copy, itertools, math, tempfile, shutil, traceback
os.environ['TQDM_DISABLE']='1'
warnings.filterwarnings("ignore")
import networkx as nx
from topsim.core.simulation import Simulation
from topsim.core.task import Task, TaskStatus
from topsim.core.cluster import Cluster
from topsim.core.planner import WorkflowPlan, WorkflowStatus
from topsim.core.instrument import RunStatus
from topsim.algorithms.planning import Planning
from topsim.user.telescope import Telescope
from topsim.user.plan.batch_planning import BatchPlanning
from topsim.user.schedule.batch_allocation import BatchProcessing
from topsim.user.schedule.queue_allocation import QueueProcessing
from topsim.user.schedule.dynamic_plan import DynamicSchedulingFromPlan
from topsim.user.schedule.greedy import GreedySchedulingFromPlan

SAFE = os.environ.get('SAFE','1')=='1'
class TraceEnv(simpy.Environment):
    def __init__(self):
        super().__init__()
        self.seq = 0
        self.after_event = []
        self.end_of_step = []
    def step(self):
        nxt = self.peek()
        if nxt > self.now and self.seq > 0:
            for h in self.end_of_step: h(self.now)
        super().step()
        self.seq += 1
        for h in self.after_event: h()

class ListPlanning(Planning):
    """mimics SHADOWPlanning output: static plan w/ machine ids, est/eft."""
    def __init__(self, algorithm='list', delay_model=None, choice=None):
        super().__init__(algorithm, delay_model)
        self.choice = choice or {}
    def __str__(self): return 'ListPlanning'
    def to_df(self): pass
    def generate_plan(self, clock, cluster, buffer, observation, max_ingest):
        with open(observation.workflow) as f: cfg = json.load(f)
        graph = nx.readwrite.node_link_graph(cfg['graph'], edges='edges')
        est_wf = self._calc_workflow_est(observation, buffer)
        machines = cluster.machines
        free_at = {m.id: 0 for m in machines}
        fin = {}; alloc = {}
        mapping = {}; tasks = []
        order = list(nx.topological_sort(graph))
        for i, n in enumerate(order):
            ch = self.choice.get((observation.name, n))
            m = machines[(ch if ch is not None else i) % len(machines)]
            comp = graph.nodes[n]['comp']; td = graph.nodes[n].get('task_data', 0)
            dur = max(int(comp / m.cpu), int(td / m.bandwidth))
            ready = 0
            for p in graph.predecessors(n):
                t = fin[p]
                if alloc[p] != m.id:
                    t += int(graph.edges[p, n]['transfer_data'] / m.bandwidth)
                ready = max(ready, t)
            st = max(ready, free_at[m.id]); ft = st + dur
            free_at[m.id] = ft; fin[n] = ft; alloc[n] = m.id
            tid = self._create_observation_task_id(n, observation, clock)
            preds = [self._create_observation_task_id(p, observation, clock) for p in graph.predecessors(n)]
            ec = {self._create_observation_task_id(p, observation, clock): graph.edges[p, n]['transfer_data'] for p in graph.predecessors(n)}
            t = Task(tid, st, ft, m.id, preds, comp, td, ec, copy.copy(self.delay_model), gid=n)
            mapping[n] = t; tasks.append(t)
        g2 = nx.relabel_nodes(graph, mapping)
        tasks.sort(key=lambda x: x.est)
        eo = [self._create_observation_task_id(n, observation, clock) for n in order]
        return WorkflowPlan(observation.name, est_wf, max(fin.values()) if fin else 0, tasks, eo, WorkflowStatus.SCHEDULED, max_ingest, g2)

def rand_dag(rng, n, p=0.4):
    nodes = [{"id": i, "comp": rng.choice([0, 1, 5, 10, 20, 35, 60])} for i in range(n)]
    for nd in nodes:
        if rng.random() < 0.3: nd["task_data"] = rng.choice([0, 3, 10, 25])
    edges = []
    for i in range(n):
        for j in range(i + 1, n):
            if rng.random() < p: edges.append((i, j, rng.choice([0, 1, 5, 10, 30])))
    return {"nodes": nodes, "edges": edges}

def rand_scenario(rng):
    n = rng.randint(1, 6)
    flops = [rng.choice([1, 5, 10, 20]) for _ in range(n)]
    bw = [rng.choice([1, 5, 10]) for _ in range(n)]
    max_ingest = rng.randint(1, n)
    arrays = rng.choice([4, 8])
    nobs = rng.randint(1, 4)
    obs = []; t = 0
    for i in range(nobs):
        t += rng.choice([0, 0, 1, 2, 5, 10])
        dur = rng.randint(1, 6); rate = rng.choice([1, 2, 5, 10])
        obs.append(dict(name=f"o{i}", start=t, duration=dur, instrument_demand=rng.choice([1, 2, 4, arrays]),
                        data_product_rate=rate, ingest=rng.randint(1, max_ingest), wf=rand_dag(rng, rng.randint(1, 6))))
    big = max(o['duration'] * o['data_product_rate'] for o in obs)
    tot = sum(o['duration'] * o['data_product_rate'] for o in obs)
    hot = rng.choice([int(tot/0.6)+2, tot*2, tot * 4, tot * 10]) if SAFE else rng.choice([big + 1, int(big * 1.5) + 1, big * 2, big * 4, big * 10])
    cold = rng.choice([big, big * 2, big * 10])
    hot_rate = max(o['data_product_rate'] for o in obs) * rng.choice([1, 2])
    cold_rate = rng.choice([1, 3, 10, 50])
    alg = rng.choice(['batch', 'queue', 'dynamic', 'greedy'])
    sc = dict(flops=flops, bw=bw, max_ingest=max_ingest, arrays=arrays, obs=obs, hot=hot, cold=cold, hot_rate=hot_rate, cold_rate=cold_rate, alg=alg,
              parts=1, minres=1, timestep='seconds')
    sc['parts']=rng.randint(1,min(3,n)); sc['minres']=rng.randint(1,max(1,min(2,n//sc['parts'])))
    return sc

def write_cfg(sc, d):
    os.makedirs(d, exist_ok=True)
    for o in sc['obs']:
        wf = o['wf']
        g = {"directed": True, "multigraph": False, "graph": {}, "nodes": wf["nodes"],
             "edges": [{"source": s, "target": t, "transfer_data": x} for s, t, x in wf["edges"]]}
        g["links"] = g["edges"]
        json.dump({"header": {}, "graph": g}, open(f"{d}/wf_{o['name']}.json", "w"))
    cfg = {"instrument": {"telescope": {"total_arrays": sc['arrays'], "max_ingest_resources": sc['max_ingest'],
            "pipelines": {o["name"]: {"workflow": f"wf_{o['name']}.json", "ingest_demand": o["ingest"]} for o in sc['obs']},
            "observations": [{k: v for k, v in o.items() if k not in ("ingest", "wf")} for o in sc['obs']]}},
           "cluster": {"header": {}, "system": {"resources": {f"m{i}": {"flops": f, "compute_bandwidth": b} for i, (f, b) in enumerate(zip(sc['flops'], sc['bw']))}, "system_bandwidth": 1.0}},
           "buffer": {"hot": {"capacity": sc['hot'], "max_ingest_rate": sc['hot_rate']}, "cold": {"capacity": sc['cold'], "max_data_rate": sc['cold_rate']}},
           "timestep": sc['timestep']}
    json.dump(cfg, open(f"{d}/sim.json", "w"), indent=1)
    return f"{d}/sim.json"

def make_sim(sc, d, env=None, delay=None):
    cfg = write_cfg(sc, d)
    env = env or TraceEnv()
    a = sc['alg']
    if a == 'batch':
        plan, alg = BatchPlanning('batch'), BatchProcessing(max_resource_partitions=sc['parts'], min_resources_per_workflow=sc['minres'])
    elif a == 'queue':
        plan, alg = BatchPlanning('batch'), QueueProcessing()
    elif a == 'dynamic':
        plan, alg = ListPlanning('list'), DynamicSchedulingFromPlan()
    else:
        plan, alg = ListPlanning('list'), GreedySchedulingFromPlan()
    sim = Simulation(env, cfg, Telescope, plan, a, alg, delay=delay, timestamp=0)
    return sim, env
