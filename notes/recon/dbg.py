import sys, json, traceback
from probe import *
from explore1 import run_one, bound
b = json.load(open(sys.argv[1]))
for k, v in b.items():
    if sys.argv[2] in k:
        sc = v[int(sys.argv[3]) if len(sys.argv)>3 else 0]
        print(k); print(json.dumps(sc))
        try:
            res, sim = run_one(sc, '/tmp/scratch/wd')
            print(res)
            print(sim.monitor.df.drop(columns=['planning','scheduling','config','delay','observations_delayed'],errors='ignore').drop(columns=[c for c in sim.monitor.df.columns if 'algtime' in c]).tail(12).to_string())
            print(sim.monitor.events.to_string())
            for o in sim.instrument.observations: print(o.name, o.status, o.est, o.ast, o.duration)
            print('hot', sim.buffer.hot[0].current_capacity, sim.buffer.hot[0].observations, 'cold', sim.buffer.cold[0].current_capacity, sim.buffer.cold[0].observations)
            print('queue', sim.scheduler.observation_queue, sim.cluster._resources, sim.cluster._tasks['running'])
        except Exception as e:
            traceback.print_exc()
        break
