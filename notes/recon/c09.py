import sys, random, collections
from probes2 import *
import probes2
PROV = []
_p = Cluster.provision_batch_resources
def prov(self, size, name, c='default'):
    before = len(self._resources['available'])
    r = _p(self, size, name, c)
    PROV.append(dict(name=name, asked=size, got=len(self._resources['idle'].get(name, [])), t=self.env.now, live=len(self._resources['idle']), npo=self.num_provisioned_obs))
    return r
Cluster.provision_batch_resources = prov
seed = int(sys.argv[1]); N = int(sys.argv[2]); rng = random.Random(seed); cnt = collections.Counter(); ex = {}
for i in range(N):
    sc = rand_scenario(rng); sc['alg'] = 'batch'; PROV.clear()
    mx = [0]
    rec, sim, snaps = run_probed(sc, '/tmp/scratch/c09w')
    n = len(sc['flops'])
    for p in PROV:
        cnt['prov'] += 1
        if p['got'] > n // sc['parts']: cnt['too big'] += 1
        if p['got'] < sc['minres']: cnt['too small'] += 1
        if p['live'] > sc['parts']: cnt['too many live'] += 1; ex['live'] = (p, sc)
        if p['npo'] != p['live']: cnt['npo mismatch'] += 1
    for t, s in snaps.items():
        if s['provisioned_observations'] > sc['parts']: cnt['snap too many'] += 1
    if len(set(p['live'] for p in PROV)) > 1: cnt['had 2 live'] += 1
    # release latency / C06 handback
    allocs = {a['task']: a for a in probes2.CUR['allocs']}
    for w in probes2.CUR['work']:
        a = allocs[w['task']]
        if a.get('end') is None: cnt['no end'] += 1; continue
        d = a['end'] - w['aft']
        cnt[f'handback aft{d:+.0f}' if d == int(d) else 'handback frac'] += 1
        if a['end'] > w['aft']: cnt['late handback'] += 1; ex['late'] = (w, a)
    for pid, msgs in rec.v.items(): cnt[pid] += 1
print(cnt); print(ex)
