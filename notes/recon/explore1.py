import sys, random, collections, traceback, shutil, json
from probe import *
def bound(sc):
    # generous serial bound
    T = max(o['start'] for o in sc['obs'])
    slow = min(sc['flops']); slowbw = min(sc['bw'])
    for o in sc['obs']:
        T += o['duration'] + 5
        size = o['duration']*o['data_product_rate']
        T += 2*math.ceil(size/min(sc['cold_rate'], sc['hot_rate'])) + 5
        for nd in o['wf']['nodes']:
            T += max(1, int(nd['comp']/slow), int(nd.get('task_data',0)/slowbw)) + 3
        for (_,_,x) in o['wf']['edges']:
            T += math.ceil(x/slowbw) + 1
    return T
def run_one(sc, d):
    sim, env = make_sim(sc, d)
    B = bound(sc)
    # replicate start() loop with cap
    sim.running = True
    env.process(sim.monitor.run()); env.process(sim.instrument.run()); env.process(sim.cluster.run())
    sim.scheduler.start(); env.process(sim.scheduler.run()); env.process(sim.buffer.run())
    while not sim.is_finished():
        if env.now > 3*B + 50: return ('HANG', B, env.now), sim
        env.run(env.now+1)
    return ('OK', B, env.now), sim
if __name__ == '__main__':
    seed = int(sys.argv[1]); N = int(sys.argv[2])
    rng = random.Random(seed)
    buckets = collections.defaultdict(list)
    for i in range(N):
        sc = rand_scenario(rng)
        d = f"/tmp/scratch/w{seed}"
        try:
            res, sim = run_one(sc, d)
            key = res[0]
            if res[0]=='OK' and res[2] > res[1]: key = 'OVERBOUND'
        except Exception as e:
            tb = traceback.extract_tb(e.__traceback__)
            fr = [f for f in tb if '/repo/topsim' in f.filename]
            key = (type(e).__name__, str(e)[:60], fr[-1].filename.split('/')[-1], fr[-1].lineno) if fr else (type(e).__name__, str(e)[:80])
        buckets[(sc['alg'], key)].append(sc)
    for k, v in sorted(buckets.items(), key=lambda kv: str(kv[0])):
        print(k, len(v))
    json.dump({str(k): v[:3] for k, v in buckets.items()}, open(f'/tmp/scratch/buckets{seed}.json','w'))
