import sys, random, collections
from probes2 import *
import probes2, probe
from topsim.core.buffer import Buffer
OVER = [0]; REF = [0]
_o = Buffer.check_buffer_over_data_threshold
def over(self, b):
    r = _o(self, b)
    if r: OVER[0] += 1
    return r
Buffer.check_buffer_over_data_threshold = over
_c = Buffer.check_buffer_capacity
def cbc(self, obs):
    r = _c(self, obs)
    if not r: REF[0] += 1
    return r
Buffer.check_buffer_capacity = cbc
seed = int(sys.argv[1]); N = int(sys.argv[2]); rng = random.Random(seed); cnt = collections.Counter(); ex = {}
for i in range(N):
    sc = rand_scenario(rng)
    cap = rng.choice([100, 1000, 37 * 60])
    sc['arrays'] = 4
    for o in sc['obs']:
        o['instrument_demand'] = rng.choice([3, 4])
        # pick duration, rate with 0.5cap < d*r <= 0.6cap
        while True:
            d = rng.randint(1, 6); lo = cap * 0.5 / d; hi = cap * 0.6 / d
            r = rng.randint(int(lo) + 1, int(hi)) if int(hi) >= int(lo) + 1 else None
            if r and 0.5 * cap < d * r <= 0.6 * cap: break
        o['duration'] = d; o['data_product_rate'] = r
    sc['hot'] = cap; sc['cold'] = max(o['duration'] * o['data_product_rate'] for o in sc['obs']) * rng.choice([1, 2]); sc['hot_rate'] = max(o['data_product_rate'] for o in sc['obs'])
    OVER[0] = 0; REF[0] = 0
    rec, sim, snaps = run_probed(sc, '/tmp/scratch/bandw')
    cnt['runs'] += 1
    if OVER[0]: cnt['entered tiering'] += 1; ex['tier'] = sc
    if REF[0]: cnt['had buffer refusal'] += 1
    for pid, msgs in rec.v.items(): cnt[pid] += 1; ex[pid] = (msgs[0], sc)
print(cnt); print({k: (v[0] if isinstance(v, tuple) else '') for k, v in ex.items()})
