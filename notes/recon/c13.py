import sys, random, collections
from probes2 import *
seed = int(sys.argv[1]); N = int(sys.argv[2]); rng = random.Random(seed); cnt = collections.Counter(); ex={}
for i in range(N):
    sc = rand_scenario(rng)
    rec, sim, snaps = run_probed(sc, '/tmp/scratch/c13w')
    ev = sim.monitor.events
    for o in sc['obs']:
        e = ev[ev['observation'] == o['name']]
        def tm(actor, event, resource):
            l = list(e[(e['actor'] == actor) & (e['event'] == event) & (e['resource'] == resource)]['time']); return l[0] if len(l)==1 else None
        st, fi = tm('instrument','started','telescope'), tm('instrument','finished','telescope')
        ba, br = tm('buffer','added','buffer'), tm('buffer','removed','buffer')
        qa, qr = tm('scheduler','added','queue'), tm('scheduler','removed','queue')
        as_, ae = tm('scheduler','started','allocation'), tm('scheduler','stopped','allocation')
        if None in (st,fi,ba,br,qa,qr,as_,ae): cnt['missing']+=1; continue
        if not (st <= qa <= as_ <= ae <= qr): cnt['order']+=1; ex['order']=(st,qa,as_,ae,qr)
        if ba != st: cnt['ba!=st']+=1
        if br != ae: cnt['br!=ae']+=1
        if fi != st + o['duration']: cnt['fin']+=1
        if qa < st + o['duration'] - 1: cnt['queue before ingest end-1']+=1
        cnt['obs']+=1
        cnt[f'qa-fi={qa-fi}']+=1
    # row order nondecreasing time?
    if list(ev['time']) != sorted(ev['time']): cnt['log not time-sorted']+=1
print(cnt, ex)
