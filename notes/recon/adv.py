import sys, random, collections, json
from probes2 import *
import probes2, probe
from topsim.algorithms.scheduling import Scheduling
class Adversary(Scheduling):
    """proposes ready tasks (preds finished) to arbitrary machines; may duplicate, pick busy/reserved; may re-propose scheduled tasks"""
    def __init__(self, rng, mode): super().__init__(); self.rng = rng; self.mode = mode
    def __repr__(self): return 'Adversary'
    def to_df(self): pass
    def run(self, cluster, clock, workflow_plan, existing_schedule, task_pool):
        alloc = copy.copy(existing_schedule)
        rng = self.rng
        if 'reserve' in self.mode and not cluster.is_observation_provisioned(workflow_plan.id) and rng.random() < 0.3 and cluster.get_available_resources():
            cluster.provision_batch_resources(rng.randint(1, 2), workflow_plan.id)
        for t in workflow_plan.tasks:
            preds = list(workflow_plan.graph.predecessors(t))
            if not all(cluster.is_task_finished(p) for p in preds): continue
            if t.task_status is not TaskStatus.UNSCHEDULED and not ('resubmit' in self.mode and rng.random() < 0.1): continue
            if rng.random() < 0.7:
                alloc[t] = rng.choice(cluster.machines)
        if len(workflow_plan.tasks) == 0:
            workflow_plan.status = WorkflowStatus.FINISHED
        return alloc, workflow_plan.status, task_pool
def make_sim_adv(sc, d, rng, mode):
    cfg = write_cfg(sc, d); env = TraceEnv()
    sim = Simulation(env, cfg, Telescope, BatchPlanning('batch'), 'adv', Adversary(rng, mode), timestamp=0)
    return sim, env
seed = int(sys.argv[1]); N = int(sys.argv[2]); mode = sys.argv[3]
rng = random.Random(seed); cnt = collections.Counter(); ex = {}
for i in range(N):
    sc = rand_scenario(rng); sc['alg'] = 'adv'
    arng = random.Random(rng.random())
    probes2.make_sim = lambda sc, d: make_sim_adv(sc, d, arng, mode)
    rec, sim, snaps = run_probed(sc, '/tmp/scratch/advw', cap_mult=1)
    ks = set()
    for pid, msgs in rec.v.items():
        k = (pid, msgs[0][:70]); ks.add(pid)
        cnt[(pid, msgs[0][:60] if pid == 'C05' else '')] += 1; ex.setdefault(pid, (msgs[0], sc))
    cnt['runs'] += 1
for k, v in sorted(cnt.items(), key=str): print(k, v)
for p, (m, sc) in ex.items(): print(p, m)
