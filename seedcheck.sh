#!/bin/sh
# usage: ./seedcheck.sh <patch.diff> <Cxx> [<Cyy> ...]   - run quick checks (generated search only) against a scratch
# copy of /repo with the patch applied; prints exit codes; removes the copy.
PATCH="$1"; shift
D=$(mktemp -d /tmp/vt_seed_XXXXXX)
cp -r /repo/topsim "$D/"
( cd "$D" && patch -p1 -s < "$PATCH" ) || { echo "patch failed"; rm -rf "$D"; exit 2; }
for P in "$@"; do
  TOPSIM_REPO="$D" VT_OUT="$D/out" VERIF_SEED="${VERIF_SEED:-1}" ./check "$P" --tier "${TIER:-quick}" --no-corpus > "$D/log_$P" 2>&1
  echo "$P exit=$? $(grep -m1 "^  $P/" "$D/log_$P" | cut -c1-200)"; tail -1 "$D/log_$P"
done
rm -rf "$D"
